#!/bin/bash
# tools/run_all.sh [quick|thorough] [IDs...] : runs the registered checks one after the other in /verif against /repo
# and prints one summary line per check (the evidence files are rewritten by the checks themselves).
tier=${1:-quick}; shift
ids=${@:-C01 C02 C03 C04 C05 C06 C07 C08 C09 C10 C11 C12 C13 C14 C15 C16 C18 C19 C20}
cd "$(dirname "$0")/.."
mkdir -p /tmp/verif-logs
for p in $ids; do
  t0=$(date +%s)
  ./check $p --tier $tier > /tmp/verif-logs/$p-$tier.log 2>&1
  rc=$?
  echo "$p $tier exit=$rc wall=$(( $(date +%s) - t0 ))s $(grep -c '^VIOLATION' /tmp/verif-logs/$p-$tier.log) violations $(grep -c '^KNOWN-FINDING' /tmp/verif-logs/$p-$tier.log) known $(grep -c '^HARNESS-ERROR' /tmp/verif-logs/$p-$tier.log) harness-errors"
done
