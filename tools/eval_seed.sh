#!/bin/bash
# tools/eval_seed.sh <seed-id> <worktree> <outdir> <property ...>
# Confirms a seeded change (tests still pass, demo fails with it / passes without) and runs the quick checks of
# the given properties against the changed tree (SIGTOOLS_VERIF_REPO); prints a one-line verdict per check.
id=$1; wt=$2; out=$3; shift 3
echo "== seed $id"
( cd $wt && /venv/bin/python -m pytest -q -p no:cacheprovider --timeout=900 --continue-on-collection-errors 2>&1 | tail -1 )
/venv/bin/python $out/demo.py $wt >/dev/null 2>&1; echo "demo on changed tree: exit $?"
/venv/bin/python $out/demo.py /repo >/dev/null 2>&1; echo "demo on /repo: exit $?"
for p in "$@"; do
  SIGTOOLS_VERIF_REPO=$wt VERIF_EVIDENCE_DIR=/tmp/seed-evidence ./check $p --tier quick > /tmp/seed-check-$id-$p.log 2>&1
  echo "check $p exit=$? $(grep -c '^VIOLATION' /tmp/seed-check-$id-$p.log) violations; first: $(grep -A1 '^VIOLATION' /tmp/seed-check-$id-$p.log | sed -n 2p | cut -c1-200)"
done
