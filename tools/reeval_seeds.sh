#!/bin/bash
# tools/reeval_seeds.sh <id:prop[,prop]> ... : for each seed, builds a scratch worktree of /repo's HEAD, applies the seed's patch
# (seeded/<id>/patch.diff or /tmp/seed-out-<id>/patch.diff), confirms tests + demo, runs the quick checks against it, removes the worktree.
cd "$(dirname "$0")/.."
for spec in "$@"; do
  id=${spec%%:*}; props=${spec#*:}; props=${props//,/ }
  src=$PWD/seeded/$id; [ -f $src/patch.diff ] || src=/tmp/seed-out-$id
  wt=/tmp/reseed-$id
  git -C /repo worktree remove --force $wt >/dev/null 2>&1
  git -C /repo worktree add -q --detach $wt HEAD
  if ! git -C $wt apply -3 $src/patch.diff >/dev/null 2>&1; then echo "== seed $id: patch does not apply to HEAD"; git -C /repo worktree remove --force $wt; continue; fi
  tools/eval_seed.sh $id $wt $src $props
  git -C /repo worktree remove --force $wt
done
