#!/usr/bin/env python3
"""Prints a markdown table of what the committed evidence files report (one row per harness item)."""
import glob, json, os, sys
d = sys.argv[1] if len(sys.argv) > 1 else os.path.join(os.path.dirname(os.path.dirname(os.path.abspath(__file__))), 'evidence')
print('| check | item | bound | paths | non-trivial | z3 queries | exhausted | wall s |')
print('|---|---|---|---|---|---|---|---|')
for f in sorted(glob.glob(os.path.join(d, 'C*.json'))):
    e = json.load(open(f))
    c = e['coverage']
    for h in c['harnesses']:
        print('| %s | %s | %s | %d | %d | %d | %s | %.0f |' % (
            e['property_id'], h['name'], c['bounds'].get(h['name'], '')[:150], h['owned_paths'], h['distinct_nontrivial'],
            h['z3'].get('queries', 0), 'yes' if h['exhaustive'] else 'no (%d/%d cubes)' % (h['cubes_exhausted'], h['cubes']), h['wall_s']))
