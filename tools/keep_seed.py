#!/usr/bin/env python3
"""tools/keep_seed.py <seed-id> <property> <outdir> <needs> <ran...>: copies a confirmed seeded change into seeded/<id>/."""
import json, os, shutil, sys
sid, prop, out, needs = sys.argv[1:5]
ran = sys.argv[5:]
here = os.path.dirname(os.path.dirname(os.path.abspath(__file__)))
dst = os.path.join(here, 'seeded', sid)
os.makedirs(dst, exist_ok=True)
for fn in ('patch.diff', 'demo.py', 'notes.md'):
    if os.path.exists(os.path.join(out, fn)):
        shutil.copy(os.path.join(out, fn), os.path.join(dst, fn))
json.dump(dict(id=sid, breaks_property=prop, needs_to_manifest=needs, what_was_run=ran,
               author='independent sub-agent given only the property text and a scratch worktree'),
          open(os.path.join(dst, 'meta.json'), 'w'), indent=1)
print('kept', dst)
