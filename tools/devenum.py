#!/usr/bin/env python3
"""Development aid, NOT a check: runs a harness over its whole decision tree by plain depth-first
enumeration (no CrossHair), with the z3 call-shape queries enabled.  Used to size universes and to debug
formalisations quickly.  usage: .venv/bin/python tools/devenum.py harness.c09 h_exact '{"K":2}' [max]"""
import collections
import json
import os
import sys
import time

HERE = os.path.dirname(os.path.dirname(os.path.abspath(__file__)))
sys.path[:0] = [os.environ.get('SIGTOOLS_VERIF_REPO', '/repo'), HERE]
import importlib
from symx import sym, driver, callshape


def main():
    mod = importlib.import_module(sys.argv[1])
    fn = getattr(mod, sys.argv[2])
    cfg = json.loads(sys.argv[3]) if len(sys.argv) > 3 else {}
    cfg.setdefault('property', getattr(mod, 'PROPERTY', ''))
    limit = int(sys.argv[4]) if len(sys.argv) > 4 else 10 ** 9
    solver = callshape.Solver()
    sym.MODE = 'replay'
    stack = [[]]
    n = 0; nontriv = 0
    counters = collections.Counter()
    viol = collections.Counter()
    shown = 0
    t0 = time.time()
    while stack and n < limit:
        dec = stack.pop()
        ctx = driver.Ctx('symbolic', solver=solver, cfg=cfg)
        sym.begin_path((), replay=dec)
        try:
            fn(ctx, cfg)
        except sym.ReplayExhausted as e:
            if e.kind == 'int' and e.lo is not None and e.hi is None:
                for v in range(e.lo + 25, e.lo - 1, -1):
                    stack.append(dec + [v])
            elif e.kind == 'int' and (e.lo is None or e.hi is None):
                stack.append(dec + [100 + 7 * len(dec)])
            elif e.kind == 'int':
                for v in range(e.hi, e.lo - 1, -1):
                    stack.append(dec + [v])
            else:
                stack.append(dec + [1]); stack.append(dec + [0])
            continue
        except driver.SkipPath:
            pass
        n += 1
        nontriv += bool(ctx.nontrivial)
        counters.update(ctx.counters)
        for v in ctx.violations:
            viol[v['label'].split('[')[0]] += 1
            if shown < int(os.environ.get('SHOW', '8')):
                shown += 1
                print('VIOL', v['label'], '|', v['case'], '|', v['witness'] and callshape.render_call(v['witness']),
                      '|', json.dumps(v['info'], default=repr)[:int(os.environ.get('INFO_LEN', '300'))], '| dec=', v['decisions'])
    print('paths', n, 'nontrivial', nontriv, 'viol', dict(viol), 'z3', solver.stats(), 'wall %.1fs' % (time.time() - t0))
    print(dict(counters))


if __name__ == '__main__':
    main()
