#!/usr/bin/env python3
"""Regenerates /verif/MANIFEST.json from the table below (kept in one place so that the manifest,
the not_applicable list and the harness plans cannot drift apart)."""
import json
import os

HERE = os.path.dirname(os.path.dirname(os.path.abspath(__file__)))

TECH = 'bounded symbolic execution of the real code (CrossHair/z3, path exhaustion) + z3 call-shape queries; replay-confirmed counterexamples'

CLAIMED = {
    'C01': dict(
        text='Real signatures.merge is executed symbolically (CrossHair) on every tuple of the bounded signature universe; per tuple z3 decides over all call shapes (unbounded positional count, all keyword subsets) that no accepted call is rejected by an input. Exhaustive within the stated bounds, nothing outside.',
        note='Bounds: quick = pairs with <=2 named parameters each (all name-equality patterns, equal/different star names) and triples with <=2 named in total; thorough = pairs <=3/<=5 total, triples <=4 total, 4-tuples. Trusted: CrossHair path exhaustion, z3, the call-shape theory (re-validated against real CPython calls each run), renaming invariance.',
        ref='4/C01'),
}

NOT_APPLICABLE = {
    'C17': 'Concurrency: CrossHair (the only symbolic engine for this Python code) instruments through process-global sys.monitoring and requires per-path determinism, so it cannot host a multi-threaded target; a hand-written SMT model of the delete/restore protocol would not be the real code. See DESIGN.md section 5.',
}

ALL = ['C%02d' % i for i in range(1, 21)]


def main():
    checks = []
    for pid in ALL:
        if pid not in CLAIMED:
            continue
        c = CLAIMED[pid]
        checks.append(dict(
            property_id=pid,
            quick_cmd='./check %s --tier quick' % pid,
            thorough_cmd='./check %s --tier thorough' % pid,
            evidence_file='/verif/evidence/%s.json' % pid,
            replay_cmd_template='./check %s --replay {path}' % pid,
            engine='symx',
            level_claimed=dict(category=c.get('category', 'model_checking'), text=c['text'],
                               design_ref='DESIGN.md section ' + c['ref']),
            level_note=c['note'],
            technique=c.get('technique', TECH),
        ))
    na = []
    for pid in ALL:
        if pid in CLAIMED:
            continue
        na.append(dict(property_id=pid, reason=NOT_APPLICABLE.get(
            pid, 'check not built yet in this session (planned, see DESIGN.md section 4); not claimed')))
    m = dict(
        version=1,
        setup_cmd='./setup.sh',
        hooks=dict(guard='SIGTOOLS_VERIF', enable='no source hooks are needed: checks import /repo/sigtools as is (SIGTOOLS_VERIF=1 is exported by ./check but nothing in /repo reads it)',
                   baseline_off_cmd='cd /repo && /venv/bin/python -m pytest -ra -q -p no:cacheprovider --timeout=900 --continue-on-collection-errors',
                   source_commits=[], add_only=True),
        engines=[dict(name='symx', path='/verif/symx', serves_properties=sorted(CLAIMED),
                      kind_free_text='CrossHair 0.0.110 (symbolic execution of the real Python code over z3 5.1) driven as a library with cube-split path exhaustion on 16 workers; z3 call-shape theory of CPython argument binding; replay of every counterexample without CrossHair/z3')],
        checks=checks,
        notes='Every check: exit 0 = held on everything explored (evidence says whether the bound was exhausted); exit 1 + VIOLATION line = replay-confirmed counterexample; exit 3 = the run is not trustworthy (oracle self-validation, non-reproducing counterexample, vacuity guard). Known findings: /verif/known_findings.json.',
        not_applicable=na,
    )
    with open(os.path.join(HERE, 'MANIFEST.json'), 'w') as f:
        json.dump(m, f, indent=1)
        f.write('\n')


if __name__ == '__main__':
    main()
