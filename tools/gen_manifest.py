#!/usr/bin/env python3
"""Regenerates /verif/MANIFEST.json from the table below (kept in one place so that the manifest,
the not_applicable list and the harness plans cannot drift apart)."""
import json
import os

HERE = os.path.dirname(os.path.dirname(os.path.abspath(__file__)))

TECH = 'bounded symbolic execution of the real code (CrossHair/z3, path exhaustion) + z3 call-shape queries; replay-confirmed counterexamples'

TRUST = ' Trusted: CrossHair path exhaustion over the harness decision tree, z3, the call-shape theory (re-validated against real CPython calls on every run), invariance of sigtools under injective renaming of parameters.'

CLAIMED = {
    'C01': dict(
        text='Real signatures.merge is executed symbolically (CrossHair) on every tuple of the bounded signature universe; per tuple z3 decides over all call shapes (unbounded positional count, all keyword subsets) that no accepted call is rejected by an input. Exhaustive within the stated bounds, nothing outside.',
        note='Bounds: quick = pairs with <=2 named parameters each (all name-equality patterns) and triples with <=2 named in total; thorough = pairs <=3/<=5 total with star-name variants, triples <=4 total, 4-tuples.' + TRUST,
        ref='4/C01'),
    'C02': dict(
        text='Real signatures.embed on every (outer, inner[, innermost]) of the bounded universe x 4 flag combinations; z3 decides soundness and exactness against the execution model Exec (outer accepts, inner accepts what outer forwards) over all call shapes, and the raise condition; associativity and identity laws compared structurally.',
        note='Bounds: quick = pairs <=3 named in total (same star names) + <=2 with star-name variants, triples <=2 total; thorough = pairs K<=3/<=4 total, triples <=3 total.' + TRUST + ' Exec is re-validated against really executed wrappers on every run.',
        ref='4/C02'),
    'C03': dict(
        text='Real signatures.mask on every signature x num_args (z3 integer 0..len+2) x ordered name tuples x hide flags; z3 decides Accept(mask,(m,kw)) <=> Accept(sig,(n+m,kw+names)) over all call shapes, the ValueError condition, hide-flag soundness by finite expansion of the hidden arguments, and that hide flags do not turn a returning mask into a raising one (except hide_args + a named positional parameter); order independence and composition laws compared structurally.',
        note='Bounds: quick = K<=2 with <=2 names in every order, K<=3 with <=1 name, 15 hide combinations on K<=2; thorough = K<=3/3 names, K<=4/2 names.' + TRUST,
        ref='4/C03'),
    'C04': dict(
        text='(i) forwards(outer, inner, n, *names, flags) is compared with embed(outer, mask(inner, ...)) in parameters and provenance over the universe x all flags; (ii) wrappers whose body performs the written call are generated, declared with forwards_to_function / forwards_to_method / forwards_to_super / apply_forwards_to_super (emulate on/off, bound/unbound), and z3 decides over all call shapes that every call accepted by the reported signature executes (and the converse where the property demands exactness); ValueError only for never-callable programs.',
        note='Bounds: quick = identity on pairs <=1 named in total x 20 flag combinations; declared wrappers with bare outer, callee <=1 named, <=1 fixed positional, <=1 name, pristine/absent/foreign stars; thorough = <=3 named, star-name variants, 32 flag combinations, partial=True, callee <=2 named.' + TRUST + ' Contradictory declarations (hide_* together with a name of the hidden class) and unbound forwards_to_method/super wrappers reporting their plain signature are outside the claim.',
        ref='4/C04'),
    'C05': dict(
        text='Programs of a forwarding grammar are generated production by production from solver decisions, compiled and given to the real sigtools.signature; when the result is not the plain signature z3 decides over all call shapes that every accepted non-colliding call executes (model re-checked by really calling the generated function), or, for tainted / foreign / doubled stars, that the callee\'s parameters are not advertised and soundness holds for some contents of that star.',
        note='Bounds: quick = sum of four focus groups (star forms x site shapes x 5 argument expressions; 30 contexts (except/else/finally/for/while/match bodies, nested defs and lambdas whose parameter of any kind shadows a star) x 7 routes; 44 taint / non-taint statements before/after; unresolvable callees) with bare outer and callee <=1 named parameter, plus positional-only outers on self/partial routes and argument expressions inside deferred calls; thorough = larger def-lists, 2 names, full cross product (time-limited).' + TRUST + ' Ground-truth semantics of the grammar productions are the generator\'s (validated by real execution of witnesses).',
        ref='4/C05'),
    'C06': dict(
        text='Same program space as C05: the discovered signature and provenance are compared with the value obtained through the public algebra (specifiers.forwards + merge) from the generator\'s ground truth; programs whose written call can never succeed (z3: no call shape accepted) may also yield the plain signature.',
        note='Bounds as C05. Differential between two routes through the real code; the solver explores the grammar exhaustively within the bound and decides the impossible-call escape.' + TRUST,
        ref='4/C06'),
    'C07': dict(
        text='(a) a table of adversarial sources (55 statement constructs x 7 function kinds x forwarding call on/off, 65 special objects (mock-like catch-all __getattr__ objects, methods forwarding a star attribute and factory-made closures included) incl. builtins, C callables, classes, partials, uncallable partials) and (b) a finite corpus of callables walked from importable modules: the three retrieval entry points must return an UpgradedSignature exactly when inspect.signature returns and raise the same exception type otherwise; for plain functions z3 decides over all call shapes that the result only narrows the own def-list; (c) the Sphinx hook returns the evaluated signature strings and never raises on a fixture module.',
        note='Bounds: quick = every single and ordered pair of the 55 constructs, 21 modules (~700 callables), 27 fixture names; thorough = the same pairs, ~120 modules (~7 400 callables). The corpus part is a finite enumeration: the solver decides only the call dimension there.' + TRUST,
        ref='4/C07'),
    'C08': dict(
        text='A well-formedness predicate on result.sources (keys == parameters + "+depths", lists non-empty and duplicate-free, every source has a depth and itself declares the name, exact source sets for merge/embed on role-consistent inputs, depth 0 outermost / chain position inside, wrapper objects replacing wrapped functions) evaluated on every result of the algebra over the universe (inner stars named like the outer\'s included), on every program of the forwarding grammar and on the corpus.',
        note='Bounds: quick = pairs <=2 named in total, merge triples <=2 named, the quick grammar of C05/C06, 21 modules; thorough = <=3 named with triples, thorough grammar, ~120 modules. No call-shape query: assertions on concrete results along solver-enumerated paths.' + TRUST,
        ref='4/C08'),
    'C09': dict(
        text='Exactness of the real merge on name-aligned role-consistent pairs (two unsat queries per pair over all call shapes, raise <=> no common call), unary/idempotence/neutral-element/round-trip laws on all signatures with and without a return annotation, fold law on role-consistent triples.',
        note='Bounds: quick = pairs K<=2, unary laws K<=3, triples <=2 named in total; thorough = pairs K<=3/<=5 total, unary K<=4, triples <=4 total.' + TRUST,
        ref='4/C09'),
    'C10': dict(
        text='merge/embed/mask/forwards/partial run on inputs whose default VALUES are None or z3 integers and whose annotation VALUES are z3 integers; the metadata rules (optional iff all optional, common default else None, agreed annotation else none, kinds only restrict, order, outer-before-inner, outer defaults dropped only before a required inner positional) are asserted on the symbolic values, the equality case splits being made by z3.',
        note='Bounds: quick = pairs <=2 named in total (triples <=1 each, no stars), singles K<=2; thorough = pairs <=4/<=3 total, triples <=3.' + TRUST + ' A concrete dry run decides whether the operation raises (error messages format parameters, which would enumerate symbolic values).',
        ref='4/C10'),
    'C11': dict(
        text='Every function is compiled with and without `from __future__ import annotations`, each with its own globals binding the same annotation name to its own z3 integer; for 10 operations source_value() must equal the integer of the defining function and evaluated() of the postponed twin must equal the eager twin.',
        note='Bounds: quick = functions with <=2 named parameters (<=2 in total for binary operations), no star parameters; thorough = K<=1 with stars, <=3 in total without.' + TRUST,
        ref='4/C11'),
    'C12': dict(
        text='Every decorator form of modifiers (kwoargs, posoargs, both stacked, start=, end=, explicit names together with start= / end=, autokwoargs) on every function of the universe and every selection: admissibility <=> no ValueError, advertised signature == independently computed rewrite, and the decorated callable (direct and bound) accepts/rejects and routes SYMBOLIC argument values exactly like a native def with that signature (z3 validity).',
        note='Bounds: quick = signatures K<=2, direct calls on K<=2 for all kwoargs/posoargs assignments, bound calls on 2-parameter methods for all forms; thorough = K<=3 and 3 positional-or-keyword parameters.' + TRUST,
        ref='4/C12'),
    'C13': dict(
        text='Stacks of 1..D layers built with wrappers.decorator / wrapper_decorator (own parameter none / keyword-only / positional) around every function of the universe, as function, method and staticmethod: z3 decides over all call shapes that the signature reported by sigtools.signature and by inspect.signature only accepts calls that every layer and the decorated function accept (ChainExec), the decorated object is really called on symbolic values and compared with the hand-written composition (results and propagated exceptions), binding removes the first parameter, wrappers.wrappers lists the layers; Combination (flat, nested, with repeated functions): result equals the chained call, merged signature sound.',
        note='Bounds: quick = K<=1, D<=2 for signatures, D=1 for calls on all placements plus D=2 stacks as methods, Combination of <=3 functions with <=2 named in total; thorough = K<=2, D<=3.' + TRUST + ' Preconditions from the property: distinct own/decorated names, some call executes.',
        ref='4/C13'),
    'C14': dict(
        text='str/bind/bind_partial of upgraded signatures produced through 5 routes are compared with a plain inspect.Signature of the same parameters on forked call shapes with symbolic values; replace()/evaluated() keep type, provenance and upgraded annotations; ==, != and hash are exercised against 13 kinds of partners (None, str, plain inspect objects, upgraded objects differing in one field).',
        note='Bounds: quick = K<=2; thorough = K<=3.' + TRUST,
        ref='4/C14'),
    'C15': dict(
        text='merge/embed/mask/forwards on the whole universe including role-inconsistent inputs, all flags, symbolic num_args, foreign and duplicate names: outcome is a re-validated UpgradedSignature or ValueError (IncompatibleSignatures where stated); plain inspect inputs give the same parameters plus a DeprecationWarning.',
        note='Bounds: quick = merge pairs <=3 total, embed pairs <=2 total, mask K<=2/1 name/16 hide combinations, forwards <=1 named in total; thorough = larger totals and triples.' + TRUST,
        ref='4/C15'),
    'C16': dict(
        text='(a) deep identity+content snapshots of all inputs before/after every algebra operation, results share no map/list with inputs (sort/apply round trip with and without sources handed over); (b) 14 retrieval scenarios x 6 fault types x a SYMBOLIC crash index (unbounded z3 integer): the k-th crossing from sigtools into outside code raises; afterwards every reachable object has exactly its former attributes and the as_forged guard is empty.',
        note='Bounds: (a) pairs <=2 named in total (forwards <=1), singles K<=2; (b) the listed scenarios, one fault per retrieval, crossings intercepted at _util.funcsigs/_util.inspect/_util.ast/bind_partial/user forger/user getter. Asynchronous exceptions are outside the fault model.' + TRUST,
        ref='4/C16'),
    'C18': dict(
        text='(a) every permutation of admissible applications of kwoargs/posoargs/autokwoargs/annotate gives the same advertised signature and the same call behaviour on symbolic values; (b) every history of <=L operations {retrieve on instance/class, call, access twice, stack another modifier on the method, drop + gc.collect()} over two instances of classes using each descriptor kind gives history-free results bound to the right instance, and dropped instances are reclaimed (weakref observers, control class); (c) each descriptor kind stacked over classmethod / staticmethod gives the same signature and result through instance, class, subclass and subclass instance in any order of look-ups.',
        note='Bounds: quick = functions with <=2 parameters and <=3 applications, histories L<=3, look-up sequences <=2; thorough = 3 parameters, L<=5, look-up sequences <=4.' + TRUST,
        ref='4/C18'),
    'C19': dict(
        text='Real functools.partial objects over every function of the universe, every count of bound positionals and ordered bound keyword tuples (foreign included), flat or nested, with SYMBOLIC bound values: z3 decides Accept(R,(m,kw)) <=> Accept(f,(cnt+m,kw+bound)) for both retrieval routes, raise <=> uncallable, and the structural clauses (defaults == bound values by z3 validity); discovery through partial(wrapper, callee) where wrapper is a function, a bound method or a classmethod.',
        note='Bounds: quick = K<=2, <=2 bound keywords; thorough = K<=3.' + TRUST,
        ref='4/C19'),
    'C20': dict(
        text='support.s / func_from_sig round trips over the universe with literal defaults/annotations x 8 read_sig option combinations x eager/postponed; bind_callsig, sort_callsigs and the function made by support.f compared with really calling a native def on symbolic values; make_up_callsigs completeness by set inclusion.',
        note='Bounds: quick = K<=2; thorough = K<=3.' + TRUST,
        ref='4/C20'),
}

NOT_APPLICABLE = {
    'C17': 'Concurrency: CrossHair (the only symbolic engine for this Python code) instruments through process-global sys.monitoring and requires per-path determinism, so it cannot host a multi-threaded target; a hand-written SMT model of the delete/restore protocol would not be the real code. See DESIGN.md section 5.',
}

ALL = ['C%02d' % i for i in range(1, 21)]


def main():
    checks = []
    for pid in ALL:
        if pid not in CLAIMED:
            continue
        c = CLAIMED[pid]
        checks.append(dict(
            property_id=pid,
            quick_cmd='./check %s --tier quick' % pid,
            thorough_cmd='./check %s --tier thorough' % pid,
            evidence_file='/verif/evidence/%s.json' % pid,
            replay_cmd_template='./check %s --replay {path}' % pid,
            engine='symx',
            level_claimed=dict(category=c.get('category', 'model_checking'), text=c['text'],
                               design_ref='DESIGN.md section ' + c['ref']),
            level_note=c['note'],
            technique=c.get('technique', TECH),
        ))
    na = []
    for pid in ALL:
        if pid in CLAIMED:
            continue
        na.append(dict(property_id=pid, reason=NOT_APPLICABLE.get(
            pid, 'no check is registered for this property yet (harness under construction, see DESIGN.md section 4); nothing is claimed')))
    m = dict(
        version=1,
        setup_cmd='./setup.sh',
        hooks=dict(guard='SIGTOOLS_VERIF', enable='no source hooks are needed: checks import /repo/sigtools as is (SIGTOOLS_VERIF=1 is exported by ./check but nothing in /repo reads it)',
                   baseline_off_cmd='cd /repo && /venv/bin/python -m pytest -ra -q -p no:cacheprovider --timeout=900 --continue-on-collection-errors',
                   source_commits=[], add_only=True),
        engines=[dict(name='symx', path='/verif/symx', serves_properties=sorted(CLAIMED),
                      kind_free_text='CrossHair 0.0.110 (symbolic execution of the real Python code over z3 5.1) driven as a library with cube-split path exhaustion on 16 workers; z3 call-shape theory of CPython argument binding; replay of every counterexample without CrossHair/z3')],
        checks=checks,
        notes='Every check: exit 0 = held on everything explored (evidence says whether the bound was exhausted); exit 1 + VIOLATION line = replay-confirmed counterexample; exit 3 = the run is not trustworthy (oracle self-validation, non-reproducing counterexample, vacuity guard). Known findings: /verif/known_findings.json.',
        not_applicable=na,
    )
    with open(os.path.join(HERE, 'MANIFEST.json'), 'w') as f:
        json.dump(m, f, indent=1)
        f.write('\n')


if __name__ == '__main__':
    main()
