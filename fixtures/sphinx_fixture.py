"""Documentable objects for the C07 Sphinx-hook obligation (imported by dotted name by the hook)."""
from __future__ import annotations

import functools

from sigtools import modifiers, specifiers, wrappers


def plain(a, b=2, *args, c, d=4, **kwargs):
    return a


def annotated(a: int, b: str = 'x', *rest: float, c: bytes = b'', **kw: list) -> dict:
    return {}


def inner(x, y=1, *, z=None):
    return x


def auto_forwarding(a, *args, **kwargs):
    return inner(*args, **kwargs)


@specifiers.forwards_to_function(inner)
def declared(a, *args, **kwargs):
    return inner(*args, **kwargs)


@specifiers.forwards_to_function(inner, emulate=True)
def declared_emulated(a, *args, **kwargs) -> int:
    return inner(*args, **kwargs)


@modifiers.kwoargs('b')
def with_kwoargs(a, b=1):
    return a


@modifiers.annotate(int, a=str)
def with_annotate(a, b=1):
    return a


@wrappers.decorator
def deco(func, *args, flag=False, **kwargs):
    return func(*args, **kwargs)


@deco
def decorated(p, q=3):
    return p


partial_obj = functools.partial(plain, 1, c=3)


class Klass(object):
    """A class with a few members."""

    def __init__(self, a, b: int = 1):
        self.a = a

    def method(self, x: int, *args, y=2, **kwargs) -> str:
        return ''

    @specifiers.forwards_to_method('method')
    def fwd(self, first, *args, **kwargs):
        return self.method(*args, **kwargs)

    @modifiers.kwoargs('k')
    def kwo_method(self, a, k=1):
        return a

    @deco
    def decorated_method(self, m):
        return m

    @staticmethod
    def static(s, t=1):
        return s

    @classmethod
    def cmeth(cls, u, v: float = 1.0):
        return u

    @property
    def prop(self):
        return 1

    def __call__(self, *args, **kwargs):
        return self.method(*args, **kwargs)


class Forged(object):
    __signature__ = specifiers.as_forged

    @specifiers.forwards_to_method('method')
    def __call__(self, x, *args, **kwargs):
        return None

    def method(self, a, b, c):
        return None


instance = Klass(1)
forged_instance = Forged()
constant = 42

NAMES = ['plain', 'annotated', 'inner', 'auto_forwarding', 'declared', 'declared_emulated', 'with_kwoargs', 'with_annotate',
         'deco', 'decorated', 'partial_obj', 'Klass', 'Klass.method', 'Klass.fwd', 'Klass.kwo_method',
         'Klass.decorated_method', 'Klass.static', 'Klass.cmeth', 'Klass.prop', 'Klass.__call__', 'Klass.__init__',
         'Forged', 'Forged.__call__', 'instance', 'forged_instance', 'constant', 'missing_name']
