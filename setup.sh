#!/bin/bash
# Offline build of /verif/.venv: /venv's interpreter + a .pth exposing /venv's site-packages,
# crosshair-tool and z3-solver from the local wheelhouse.  Idempotent.
set -e
cd "$(dirname "$0")"
if [ -x .venv/bin/python ] && .venv/bin/python -c "import crosshair, z3, attr" 2>/dev/null; then
  exit 0
fi
exec 9>.venv.lock
flock 9
if [ -x .venv/bin/python ] && .venv/bin/python -c "import crosshair, z3, attr" 2>/dev/null; then
  exit 0
fi
rm -rf .venv
/venv/bin/python -m venv .venv
SP=$(.venv/bin/python -c "import sysconfig; print(sysconfig.get_paths()['purelib'])")
printf "import site; site.addsitedir('/venv/lib/python3.12/site-packages')\n" > "$SP/verif_overlay.pth"
PIP_NO_INDEX=1 .venv/bin/pip install -q --no-index --find-links /opt/veriftools/wheels crosshair-tool z3-solver
.venv/bin/python -c "import crosshair, z3, attr; print('venv ok', crosshair.__version__, z3.get_version_string())"
