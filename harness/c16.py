"""C16 — the algebra and signature retrieval do not modify what they inspect, even when they fail."""
import functools
import types

import sigtools
from sigtools import _signatures as S, _util, specifiers, modifiers, wrappers

from symx import sym, universe as U
from harness.common import *
from harness.algebra import *

PROPERTY = 'C16'
LEVEL = 'model_checking'
RULE = ('algebra harness: each CrossHair path decodes one operation instance over U(K) and compares a deep '
        'identity+content snapshot of every input before and after; crash harness: each path picks a scenario object, '
        'a fault type and a SYMBOLIC crash index k (a z3 integer, unbounded above): the k-th call that crosses from '
        'sigtools into outside code (inspect.signature, getsource, cleandoc, ast.parse, bind_partial, user forger, user '
        'attribute getter) raises; one path per crossing plus one path for every k beyond the last crossing; distinct = '
        'distinct rendered instance incl. the crossing reached; non-trivial = snapshot comparison was evaluated')
EXPLANATION = ('The crash index is decided by z3 at each crossing (k == count?), so the set of paths is exactly the set of '
               'distinct fault placements; after the real sigtools.signature returns or raises, vars() of the object and '
               'of everything reachable through __wrapped__/__signature__/__dict__ must be identical (same keys, same '
               'value identities) and the as_forged recursion guard empty.')
OUTSIDE = ('asynchronous exceptions between two statements of sigtools (not in the fault model); scenarios other than the '
           'listed ones; more than one fault per retrieval')
ASSUMPTIONS = ['crossings are intercepted by replacing the module attributes sigtools reaches them through '
               '(_util.funcsigs, _util.inspect, _util.ast, UpgradedSignature.bind_partial) — no change to /repo']


# ------------------------------------------------------------------ (a) algebra

def _snap_sig(sig):
    params = list(sig.parameters.values())
    src = sig.sources
    return dict(
        sig=sig, params=params,
        fields=[(p.name, int(p.kind), p.default, p.annotation, p.upgraded_annotation, id(p.sources),
                 list(p.sources), dict(p.source_depths)) for p in params],
        src_id=id(src), src_keys=list(src),
        lists=dict((k, (id(v), list(v))) for k, v in src.items() if k != '+depths'),
        depths=(id(src.get('+depths')), dict(src.get('+depths', {}))),
        ret=sig.return_annotation, uret=sig.upgraded_return_annotation)


def _unchanged(sn):
    sig = sn['sig']
    params = list(sig.parameters.values())
    if len(params) != len(sn['params']) or any(a is not b for a, b in zip(params, sn['params'])):
        return 'parameter objects replaced'
    for p, f in zip(params, sn['fields']):
        now = (p.name, int(p.kind), p.default, p.annotation, p.upgraded_annotation, id(p.sources),
               list(p.sources), dict(p.source_depths))
        if now != f:
            return 'parameter %s changed' % p.name
    src = sig.sources
    if id(src) != sn['src_id'] or list(src) != sn['src_keys']:
        return 'sources map replaced or re-keyed'
    for k, (i, content) in sn['lists'].items():
        if id(src[k]) != i or list(src[k]) != content:
            return 'sources[%r] changed' % k
    if id(src.get('+depths')) != sn['depths'][0] or dict(src.get('+depths', {})) != sn['depths'][1]:
        return '+depths changed'
    if sig.return_annotation != sn['ret'] or sig.upgraded_return_annotation is not sn['uret']:
        return 'return annotation changed'
    return None


def _shares(R, sigs):
    rs = R.sources
    for s in sigs:
        if rs is s.sources:
            return 'result.sources is an input map'
        if rs.get('+depths') is s.sources.get('+depths') and '+depths' in rs:
            return "result '+depths' is an input map"
        for k, v in rs.items():
            if k != '+depths':
                for k2, v2 in s.sources.items():
                    if v is v2:
                        return 'result.sources[%r] is input list %r' % (k, k2)
    return None


OPS = ('merge', 'embed', 'mask', 'forwards', 'sort/apply')


def h_algebra(ctx, cfg):
    op = OPS[sym.pick(len(OPS), 'op')]
    if op in ('mask', 'sort/apply'):
        specs = U.gen_sigs(1, cfg['K'])
    elif op == 'forwards':
        specs = U.gen_sigs(2, cfg['K'], cfg.get('fw_total', cfg.get('total')), star_variants=False)
    else:
        specs = U.gen_sigs(2, cfg['K'], cfg.get('total'), star_variants=False)
    args = {}
    if op == 'embed':
        args = draw_flags(('use_varargs', 'use_varkwargs'))
    elif op == 'mask':
        names = draw_names(name_pool(specs[0], po=True), 1, dup=True)
        args = draw_flags(('hide_args', 'hide_kwargs', 'hide_varargs', 'hide_varkwargs'))
        n = draw_num_args(specs[0])
    elif op == 'forwards':
        names = draw_names(name_pool(specs[1], po=True), 1, dup=True)
        args = draw_forwards_flags('lite')
        n = draw_num_args(specs[1])
    with sym.notrace():
        ctx.case('%s %s %s' % (op, render_specs(specs), render_flags(args)), nontrivial=True)
        fns = [U.real_function(s, 'f%d' % j) for j, s in enumerate(specs)]
    sigs = [S.signature(f) for f in fns]        # fresh objects on every path
    snaps = [_snap_sig(s) for s in sigs]
    R = None
    try:
        if op == 'merge':
            R = S.merge(*sigs)
        elif op == 'embed':
            R = S.embed(*sigs, **args)
        elif op == 'mask':
            R = S.mask(sigs[0], n, *names, **args)
        elif op == 'forwards':
            R = S.forwards(sigs[0], sigs[1], n, *names, **args)
        else:
            sp = S.sort_params(sigs[0], sources=True)
            bad = None
            for k, v in sp.sources.items():
                if k != '+depths' and any(v is v2 for v2 in sigs[0].sources.values()):
                    bad = k
            ctx.require('sort_params-copies-sources', bad is None and sp.sources is not sigs[0].sources and
                        sp.sources.get('+depths') is not sigs[0].sources.get('+depths'), lambda: dict(shared=bad))
            sp[0].append('scribble'); sp[1].append('scribble'); sp[3]['scribble'] = 1
            sp2 = S.sort_params(sigs[0], sources=True)
            R = S.apply_params(sigs[0], *sp2)
            # the round trip without provenance handed over: the result keeps the input's provenance, not the map itself
            R3 = S.apply_params(sigs[0], *S.sort_params(sigs[0]))
            sh3 = _shares(R3, sigs)
            ctx.require('result-shares-nothing[apply_params without sources]', sh3 is None, lambda: dict(why=sh3, result=str(R3)))
    except ValueError:
        ctx.count('raised')
    for j, sn in enumerate(snaps):
        why = _unchanged(sn)
        ctx.require('input-unchanged[%s]' % op, why is None, lambda: dict(input=j, why=why))
    if R is not None:
        sh = _shares(R, sigs)
        ctx.require('result-shares-nothing[%s]' % op, sh is None, lambda: dict(why=sh, result=str(R)))


# ------------------------------------------------------------------ (b) crash points

class Fault1(Exception):
    pass


FAULTS = (Fault1, ValueError, TypeError, AttributeError, KeyError, OSError)


class _Env(object):
    count = 0
    k = None
    fault = None
    hit = None

    @classmethod
    def cross(cls, what):
        cls.count += 1
        if cls.k is None:
            return
        with sym.resumed():
            here = bool(cls.count == cls.k)
        if here:
            cls.hit = (cls.count, what)
            raise cls.fault('injected at crossing %d (%s)' % (cls.count, what))


class _Proxy(object):
    def __init__(self, real, stubs):
        object.__setattr__(self, '_real', real)
        object.__setattr__(self, '_stubs', stubs)

    def __getattr__(self, name):
        stubs = object.__getattribute__(self, '_stubs')
        if name in stubs:
            return stubs[name]
        return getattr(object.__getattribute__(self, '_real'), name)


def _counting(what, real):
    def stub(*a, **kw):
        _Env.cross(what)
        return real(*a, **kw)
    return stub


class _Stubs(object):
    def __enter__(self):
        import inspect as _inspect
        import ast as _ast
        self.saved = (_util.funcsigs, _util.inspect, _util.ast)
        _util.funcsigs = _Proxy(_inspect, dict(signature=_counting('inspect.signature', _inspect.signature)))
        _util.inspect = _Proxy(_inspect, dict(getsource=_counting('inspect.getsource', _inspect.getsource),
                                              cleandoc=_counting('inspect.cleandoc', _inspect.cleandoc)))
        _util.ast = _Proxy(_ast, dict(parse=_counting('ast.parse', _ast.parse)))
        real_bp = _inspect.Signature.bind_partial

        def bind_partial(self_, *a, **kw):
            _Env.cross('bind_partial')
            return real_bp(self_, *a, **kw)
        S.UpgradedSignature.bind_partial = bind_partial
        return self

    def __exit__(self, *exc):
        _util.funcsigs, _util.inspect, _util.ast = self.saved
        try:
            del S.UpgradedSignature.bind_partial
        except AttributeError:
            pass


_SCENARIO_SRC = '''
import functools
from sigtools import specifiers, modifiers, wrappers, support

def callee(x, y=2, *, z=3):
    return x

def deco(f):
    @functools.wraps(f)
    def w(*args, **kwargs):
        return f(*args, **kwargs)
    return w

wrapped = deco(callee)
wrapped2 = deco(deco(callee))

def with_sig(a, *args, **kwargs):
    return callee(*args, **kwargs)
with_sig.__signature__ = support.s('q, r')

class Forged(object):
    __signature__ = specifiers.as_forged
    def __call__(self, a, *args, **kwargs):
        return callee(*args, **kwargs)
forged_inst = Forged()

@specifiers.forwards_to_function(callee)
def fwd(a, *args, **kwargs):
    return callee(*args, **kwargs)

@specifiers.forwards_to_function(callee, emulate=True)
def fwd_emulated(a, *args, **kwargs):
    return callee(*args, **kwargs)

@specifiers.forger_function
def my_forger(obj):
    CROSS('user forger')
    return support.s('u, v')

@my_forger()
def user_forged(a, *args, **kwargs):
    return None

class Meths(object):
    @property
    def target(self):
        CROSS('user attribute getter')
        return callee
    @specifiers.forwards_to_method('target')
    def m(self, a, *args, **kwargs):
        return self.target(*args, **kwargs)
    @specifiers.forwards_to_method('plain_target')
    def m2(self, a, *args, **kwargs):
        return self.plain_target(*args, **kwargs)
    def plain_target(self, x, y):
        return x
    def auto(self, a, *args, **kwargs):
        return self.plain_target(*args, **kwargs)
meths = Meths()

@modifiers.kwoargs('b')
def modified(a, b=1, *args, **kwargs):
    return callee(*args, **kwargs)

@wrappers.decorator
def my_deco(func, *args, flag=False, **kwargs):
    return func(*args, **kwargs)

@my_deco
def decorated(p, q):
    return p

def takes_fn(fn, *args, **kwargs):
    return fn(*args, **kwargs)
part = functools.partial(takes_fn, callee)
part_wrapped = functools.partial(wrapped, 1)
'''

SCENARIOS = ('wrapped', 'wrapped2', 'with_sig', 'forged_inst', 'fwd', 'fwd_emulated', 'user_forged', 'meths.m',
             'meths.m2', 'meths.auto', 'modified', 'decorated', 'part', 'part_wrapped')


def _scenario(name):
    """Fresh objects on every path (exec of the scenario module with a linecache entry)."""
    import linecache
    fname = '<symx-c16-scenario>'
    linecache.cache[fname] = (len(_SCENARIO_SRC), None, _SCENARIO_SRC.splitlines(True), fname)
    ns = {'CROSS': _Env.cross, '__name__': 'c16_scenario'}
    exec(compile(_SCENARIO_SRC, fname, 'exec'), ns)
    obj = ns
    for part in name.split('.'):
        obj = obj[part] if isinstance(obj, dict) else getattr(obj, part)
    roots = [obj, ns['callee'], ns['wrapped'], ns['wrapped2'], ns['with_sig'], ns['forged_inst'], ns['meths'],
             ns['Meths'].__dict__['m'], ns['Meths'].__dict__['m2'], ns['modified'], ns['decorated'], ns['takes_fn']]
    return obj, roots


_SKIP = (types.ModuleType, type, types.BuiltinFunctionType, str, int, tuple, frozenset, type(None), bool, float)


def _snapshot(roots, depth=4):
    """{id(obj): (obj, [(attr, id(value))...])} for everything reachable through instance __dict__s
    (hence __wrapped__, __signature__, func, __func__, __self__)."""
    out = {}
    todo = [(r, 0) for r in roots]
    while todo:
        o, d = todo.pop()
        if id(o) in out or isinstance(o, _SKIP):
            continue
        dct = getattr(o, '__dict__', None)
        entry = []
        if isinstance(dct, dict):
            for k in sorted(dct):
                entry.append((k, id(dct[k])))
                if d < depth:
                    todo.append((dct[k], d + 1))
        for extra in ('__self__', '__func__', 'func'):
            v = getattr(o, extra, None) if not isinstance(o, _SKIP) else None
            if v is not None and d < depth:
                todo.append((v, d + 1))
        out[id(o)] = (o, entry)
    return out


def _diff(before):
    for i, (o, entry) in before.items():
        dct = getattr(o, '__dict__', None)
        now = [(k, id(dct[k])) for k in sorted(dct)] if isinstance(dct, dict) else []
        if now != entry:
            was = dict(entry); cur = dict(now)
            added = sorted(set(cur) - set(was)); removed = sorted(set(was) - set(cur))
            changed = sorted(k for k in set(was) & set(cur) if was[k] != cur[k])
            return dict(object='%s object' % type(o).__name__, added=added, removed=removed, rebound=changed)
    return None


def h_crash(ctx, cfg):
    name = SCENARIOS[sym.pick(len(SCENARIOS), 'scenario')]
    fault = FAULTS[sym.pick(len(FAULTS), 'fault')]
    via_inspect = sym.flip('via') if name in ('forged_inst', 'fwd_emulated', 'decorated') else False
    k = sym.sym_int(1, None, 'k')
    with sym.notrace():
        obj, roots = _scenario(name)
        if '.' in name:
            getattr(roots[6], name.split('.')[1])      # first descriptor access happens before the snapshot
        before = _snapshot(roots)
    _Env.count = 0; _Env.k = k; _Env.fault = fault; _Env.hit = None
    outcome = 'returned'
    try:
        with _Stubs():
            if via_inspect:
                import inspect
                inspect.signature(obj)
            else:
                sigtools.signature(obj)
    except Exception as e:
        outcome = 'raised ' + type(e).__name__
    finally:
        _Env.k = None
    with sym.notrace():
        hit = _Env.hit
        ctx.case('%s%s fault=%s at %s -> %s' % (name, ' via inspect.signature' if via_inspect else '', fault.__name__,
                                                 ('crossing %d (%s)' % hit) if hit else 'no crossing (k beyond the last of %d)' % _Env.count,
                                                 outcome), nontrivial=True)
        d = _diff(before)
        guard = len(specifiers.as_forged.currently_computing)
    ctx.count('crossing:%s' % (hit[1] if hit else 'none'))
    ctx.require('attributes-unchanged', d is None,
                lambda: dict(d or {}, no_fault_injected=hit is None, class_level_as_forged=(name == 'forged_inst')))
    ctx.require('recursion-guard-empty', guard == 0, lambda: dict(size=guard))
    with sym.notrace():
        specifiers.as_forged.currently_computing.clear()


def plan(tier):
    if tier == 'quick':
        return [
            dict(name='algebra-K2', fn='h_algebra', depth=9, budget_s=300, cfg=dict(K=2, total=2, fw_total=1),
                 bounds='merge/embed: pairs with <=2 named in total; forwards: pairs with <=1 named in total; mask/sort/apply: <=2 named; flags, num_args 0..len+2, <=1 name',
                 min_nontrivial=500, must_reach=['input-unchanged', 'result-shares-nothing', 'sort_params-copies-sources']),
            dict(name='crash-points', fn='h_crash', depth=6, budget_s=300, cfg=dict(),
                 bounds='14 scenario objects x 6 fault types x every crossing index (symbolic, unbounded) x sigtools.signature / inspect.signature',
                 min_nontrivial=100, must_reach=['attributes-unchanged', 'recursion-guard-empty']),
        ]
    return [
        dict(name='algebra-K3', fn='h_algebra', depth=10, budget_s=3000, cfg=dict(K=2, total=3),
             bounds='merge/embed/forwards: pairs with <=3 named in total; mask/sort/apply: <=2 named', min_nontrivial=500),
        dict(name='crash-points', fn='h_crash', depth=6, budget_s=900, cfg=dict(),
             bounds='14 scenario objects x 6 fault types x every crossing index (symbolic, unbounded)', min_nontrivial=100),
    ]
