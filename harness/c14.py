"""C14 — returned signatures/parameters are drop-in inspect.Signature / inspect.Parameter objects."""
import inspect

import sigtools
from sigtools import _signatures as S

from symx import sym, universe as U
from harness.common import *
from harness.algebra import *

PROPERTY = 'C14'
LEVEL = 'model_checking'
RULE = ('each CrossHair path decodes a signature from U(K) (literal annotations on a drawn subset, optional return '
        'annotation), the route that produced the upgraded object (plain retrieval, sigtools.signature, mask, merge, '
        'embed into bare stars) and either a call shape with SYMBOLIC values (bind / bind_partial) or a comparison '
        'partner from the menagerie; distinct = distinct rendered instance; non-trivial = obligations evaluated')
EXPLANATION = ('str/bind/bind_partial are compared with a plain inspect.Signature built from the same parameters (same '
               'arguments mapping, decided by z3 over the symbolic values, or same exception type). ==, != and hash are '
               'exercised against None, a string, plain inspect objects carrying the same data and upgraded objects '
               'differing in exactly one field.')
OUTSIDE = 'signatures with more named parameters than the bound; unhashable defaults/annotations'
ASSUMPTIONS = []

ROUTES = ('plain-retrieval', 'sigtools.signature', 'mask0', 'merge-self', 'embed-bare')


def _build(spec, ann_on, has_ret, tag='f'):
    ann = dict((nm, str(10 + i)) for i, nm in enumerate(spec.names) if ann_on[i])
    values = dict((nm, str(100 + i)) for i, nm in enumerate(spec.names))
    ns = {}
    exec('def %s(%s)%s:\n    return locals()\n' % (tag, spec.deflist(values=values, annotations=ann),
                                                  ' -> 77' if has_ret else ''), ns)
    return ns[tag]


def _route(route, fn):
    sig = S.signature(fn)
    if route == 'plain-retrieval':
        return sig
    if route == 'sigtools.signature':
        return sigtools.signature(fn)
    if route == 'mask0':
        return S.mask(sig, 0)
    if route == 'merge-self':
        return S.merge(sig, sig)
    bare = S.signature(_BARE)
    return S.embed(bare, sig)


def _bare(*args, **kwargs):
    pass


_BARE = _bare


def _plain_param(p):
    return inspect.Parameter(p.name, p.kind, default=p.default, annotation=p.annotation)


def _plain(sig):
    return inspect.Signature([_plain_param(p) for p in sig.parameters.values()],
                             return_annotation=sig.return_annotation)


def _try(fn):
    try:
        return fn(), None
    except Exception as e:      # the exception type is part of the comparison
        return None, e


def h_bind(ctx, cfg):
    spec = U.gen_sigs(1, cfg['K'])[0]
    route = ROUTES[sym.pick(len(ROUTES), 'route')]
    npos = sum(1 for k in spec.kinds if k < 2)
    n = sym.pick(npos + 3, 'n')
    kws = tuple(nm for nm in list(spec.names) + [FOREIGN_NAME] if sym.flip('kw'))
    avals = tuple(sym.sym_val('av') for _ in range(n))
    kvals = dict((nm, sym.sym_val('kv')) for nm in kws)
    with sym.notrace():
        ctx.case('%s of %r bind n=%d kw={%s}' % (route, spec, n, ','.join(kws)), nontrivial=True)
        fn = _build(spec, [False] * len(spec.names), False)
    sig = _route(route, fn)
    plain = _plain(sig)
    info = lambda: dict(sig=str(sig))
    ctx.require('str-same', str(sig) == str(plain), lambda: dict(info(), plain=str(plain)))
    for meth in ('bind', 'bind_partial'):
        got, gerr = _try(lambda: getattr(sig, meth)(*avals, **kvals))
        want, werr = _try(lambda: getattr(plain, meth)(*avals, **kvals))
        if not ctx.require('%s-same-outcome' % meth, type(gerr) is type(werr),
                           lambda: dict(info(), upgraded=repr(gerr), plain=repr(werr))):
            continue
        if gerr is None:
            same = list(got.arguments) == list(want.arguments) and \
                all(got.arguments[k] == want.arguments[k] for k in want.arguments)
            ctx.require('%s-same-arguments' % meth, same, info)
            ctx.require('%s-args-kwargs-same' % meth, got.args == want.args and got.kwargs == want.kwargs, info)


def h_replace(ctx, cfg):
    spec = U.gen_sigs(1, cfg['K'])[0]
    route = ROUTES[sym.pick(len(ROUTES), 'route')]
    ann_on = [sym.flip('ann') for _ in spec.names]
    has_ret = sym.flip('ret')
    with sym.notrace():
        ctx.case('%s of %r ann=%s ret=%d replace' % (route, spec, ''.join(str(int(a)) for a in ann_on), has_ret),
                 nontrivial=True)
        fn = _build(spec, ann_on, has_ret)
    sig = _route(route, fn)
    info = lambda: dict(sig=str(sig))
    r = sig.replace()
    ctx.require('replace-keeps-type', type(r) is type(sig) and isinstance(r, S.UpgradedSignature), info)
    ctx.require('replace-keeps-sources', r.sources == sig.sources, info)
    ctx.require('replace-keeps-upgraded-return', r.upgraded_return_annotation is sig.upgraded_return_annotation, info)
    ctx.require('replace-keeps-parameters', list(r.parameters.values()) == list(sig.parameters.values()) and
                all(isinstance(p, S.UpgradedParameter) for p in r.parameters.values()), info)
    ctx.require('replace-str-same', str(r) == str(sig), info)
    r2 = sig.replace(return_annotation=5, upgraded_return_annotation=S.UpgradedAnnotation.preevaluated(5))
    ctx.require('replace-overrides-return', r2.return_annotation == 5 and
                r2.upgraded_return_annotation.source_value() == 5 and r2.sources == sig.sources, info)
    smark = {'+depths': {}}
    r4 = sig.replace(sources=smark)
    ctx.require('replace-sources-alone', r4.sources is smark and
                r4.upgraded_return_annotation is sig.upgraded_return_annotation and str(r4) == str(sig), info)
    r5 = sig.replace(upgraded_return_annotation=S.UpgradedAnnotation.preevaluated(8))
    ctx.require('replace-upgraded-return-alone', r5.sources == sig.sources and
                r5.upgraded_return_annotation.source_value() == 8 and
                list(r5.parameters.values()) == list(sig.parameters.values()), info)
    ps = list(sig.parameters.values())
    if ps:
        r3 = sig.replace(parameters=ps[1:])
        ctx.require('replace-parameters-keeps-rest', type(r3) is type(sig) and r3.sources == sig.sources and
                    list(r3.parameters) == [p.name for p in ps[1:]] and
                    r3.upgraded_return_annotation is sig.upgraded_return_annotation, info)
    for p in ps:
        q = p.replace(name=p.name + '_')
        ok = (type(q) is type(p) and q.name == p.name + '_' and q.kind == p.kind and
              q.upgraded_annotation is p.upgraded_annotation and q.sources == p.sources and
              q.source_depths == p.source_depths and q.annotation == p.annotation and
              (q.default is p.default or q.default == p.default))
        ctx.require('parameter-replace-keeps-rest', ok, lambda: dict(info(), name=p.name))
        q2 = p.replace(annotation=9, upgraded_annotation=S.UpgradedAnnotation.preevaluated(9))
        ctx.require('parameter-replace-overrides', q2.annotation == 9 and q2.upgraded_annotation.source_value() == 9
                    and q2.name == p.name, lambda: dict(info(), name=p.name))
        marker = [fn]
        q3 = p.replace(sources=marker)
        ctx.require('parameter-replace-sources-alone', q3.sources is marker and q3.source_depths == p.source_depths and
                    q3.upgraded_annotation is p.upgraded_annotation and q3.name == p.name and q3.kind == p.kind,
                    lambda: dict(info(), name=p.name, depths=repr(q3.source_depths)))
        dmark = {fn: 7}
        q4 = p.replace(source_depths=dmark)
        ctx.require('parameter-replace-source_depths-alone', q4.source_depths is dmark and q4.sources == p.sources and
                    q4.upgraded_annotation is p.upgraded_annotation,
                    lambda: dict(info(), name=p.name, depths=repr(q4.source_depths)))
        ua = S.UpgradedAnnotation.preevaluated(31)
        q5 = p.replace(upgraded_annotation=ua)
        ctx.require('parameter-replace-upgraded_annotation-alone', q5.upgraded_annotation is ua and q5.sources == p.sources
                    and q5.source_depths == p.source_depths and q5.annotation == p.annotation,
                    lambda: dict(info(), name=p.name))
        q6 = p.replace(default=5) if p.kind not in (p.VAR_POSITIONAL, p.VAR_KEYWORD) else p.replace()
        ctx.require('parameter-replace-default-keeps-provenance', q6.sources == p.sources and
                    q6.source_depths == p.source_depths and q6.upgraded_annotation is p.upgraded_annotation,
                    lambda: dict(info(), name=p.name))
        e = p.evaluated()
        ctx.require('parameter-evaluated', type(e) is type(p) and e.annotation == p.upgraded_annotation.source_value(),
                    lambda: dict(info(), name=p.name))
    ev = sig.evaluated()
    ctx.require('evaluated-keeps-type', type(ev) is type(sig) and str(ev) == str(sig), info)


PARTNERS = ('None', 'string', 'plain-same', 'upgraded-same', 'upgraded-other-route', 'differs-name', 'differs-kind',
            'differs-default', 'differs-annotation', 'differs-return', 'differs-extra-parameter', 'int', 'plain-different')


def _eq(a, b):
    return _try(lambda: a == b)


def _ne(a, b):
    return _try(lambda: a != b)


def _cmp_obligations(ctx, what, a, b, expect_equal, info):
    r1, e1 = _eq(a, b)
    r2, e2 = _eq(b, a)
    n1, e3 = _ne(a, b)
    n2, e4 = _ne(b, a)
    i2 = lambda: dict(info(), partner=repr(b)[:80], errors=[repr(e) for e in (e1, e2, e3, e4) if e is not None])
    if not ctx.require('%s-compare-does-not-raise' % what, e1 is None and e2 is None and e3 is None and e4 is None, i2):
        return
    ctx.require('%s-compare-returns-bool' % what, all(type(r) is bool for r in (r1, r2, n1, n2)), i2)
    ctx.require('%s-eq-symmetric' % what, r1 == r2 and n1 == n2 and n1 == (not r1), i2)
    if expect_equal is not None:
        ctx.require('%s-eq-expected' % what, r1 == expect_equal, lambda: dict(i2(), expected=expect_equal))
    ha, he = _try(lambda: hash(a))
    if r1 is True:
        hb, he2 = _try(lambda: hash(b))
        if he2 is None:
            ctx.require('%s-eq-implies-same-hash' % what, he is None and ha == hb, i2)


def h_compare(ctx, cfg):
    spec = U.gen_sigs(1, cfg['K'])[0]
    route = ROUTES[sym.pick(len(ROUTES), 'route')]
    ann_on = [sym.flip('ann') for _ in spec.names]
    has_ret = sym.flip('ret')
    partner = PARTNERS[sym.pick(len(PARTNERS), 'partner')]
    with sym.notrace():
        ctx.case('%s of %r ann=%s ret=%d vs %s' % (route, spec, ''.join(str(int(a)) for a in ann_on), has_ret, partner),
                 nontrivial=True)
        fn = _build(spec, ann_on, has_ret)
    sig = _route(route, fn)
    plain = _plain(sig)
    ps = list(sig.parameters.values())
    info = lambda: dict(sig=str(sig))
    # reflexivity and hashability of the object itself and of its parameters
    _cmp_obligations(ctx, 'signature', sig, sig, True, info)
    h, he = _try(lambda: hash(sig))
    hp, hpe = _try(lambda: hash(plain))
    ctx.require('signature-hashable-like-plain', (he is None) == (hpe is None), lambda: dict(info(), exc=repr(he)))
    for p in ps:
        _cmp_obligations(ctx, 'parameter', p, p, True, lambda: dict(info(), name=p.name))
        h, he = _try(lambda: hash(p))
        ctx.require('parameter-hashable-like-plain', he is None, lambda: dict(info(), name=p.name, exc=repr(he)))
    # the partner
    expect = None
    if partner == 'None':
        b = None; expect = False
    elif partner == 'string':
        b = str(sig); expect = False
    elif partner == 'int':
        b = 3; expect = False
    elif partner == 'plain-same':
        b = plain; expect = True
    elif partner == 'upgraded-same':
        b = _route(route, fn); expect = True
    elif partner == 'upgraded-other-route':
        b = _route(ROUTES[(ROUTES.index(route) + 1) % len(ROUTES)], fn)
        expect = (params_key(b, True) == params_key(sig, True) and b.return_annotation == sig.return_annotation
                  and [p.annotation for p in b.parameters.values()] == [p.annotation for p in sig.parameters.values()])
    elif partner == 'differs-return':
        b = sig.replace(return_annotation=123, upgraded_return_annotation=S.UpgradedAnnotation.preevaluated(123))
        expect = False
    elif partner == 'differs-extra-parameter':
        extra = S.UpgradedParameter('zz_extra', inspect.Parameter.KEYWORD_ONLY, default=1)
        tail = [p for p in ps if p.kind == p.VAR_KEYWORD]
        b = sig.replace(parameters=[p for p in ps if p.kind != p.VAR_KEYWORD] + [extra] + tail)
        expect = False
    elif partner == 'plain-different':
        b = inspect.Signature([inspect.Parameter('zz_other', inspect.Parameter.POSITIONAL_ONLY)])
        expect = False
    else:
        if not ps:
            ctx.count('no-parameter-to-alter')
            return
        p0 = ps[-1] if ps[-1].kind != ps[-1].VAR_KEYWORD or len(ps) == 1 else ps[-1]
        if partner == 'differs-name':
            q = p0.replace(name=p0.name + 'x')
        elif partner == 'differs-kind':
            newkind = {0: 1, 1: 3, 3: 1, 2: 3, 4: 3}[int(p0.kind)]
            try:
                q = p0.replace(kind=inspect._ParameterKind(newkind))
                sig.replace(parameters=[(q if x is p0 else x) for x in ps])
            except ValueError:
                ctx.count('kind-change-not-constructible')
                return
        elif partner == 'differs-default':
            if p0.kind in (p0.VAR_POSITIONAL, p0.VAR_KEYWORD):
                ctx.count('star-has-no-default')
                return
            q = p0.replace(default=(p0.default + 1) if p0.default is not p0.empty else 55)
            try:
                sig.replace(parameters=[(q if x is p0 else x) for x in ps])
            except ValueError:
                ctx.count('default-change-not-constructible')
                return
        else:
            q = p0.replace(annotation=4242, upgraded_annotation=S.UpgradedAnnotation.preevaluated(4242))
        b = sig.replace(parameters=[(q if x is p0 else x) for x in ps])
        expect = False
        _cmp_obligations(ctx, 'parameter', p0, q, False, lambda: dict(info(), name=p0.name))
        _cmp_obligations(ctx, 'parameter', p0, _plain_param(p0), True, lambda: dict(info(), name=p0.name))
        _cmp_obligations(ctx, 'parameter', p0, None, False, lambda: dict(info(), name=p0.name))
    _cmp_obligations(ctx, 'signature', sig, b, expect, info)


def plan(tier):
    if tier == 'quick':
        return [
            dict(name='bind-K2', fn='h_bind', depth=9, budget_s=300, cfg=dict(K=2),
                 bounds='signatures with <=2 named parameters x 5 routes x calls n<=len+2, every keyword subset incl. foreign; symbolic values',
                 min_nontrivial=500, must_reach=['str-same', 'bind-same-arguments', 'bind_partial-same-arguments']),
            dict(name='replace-K2', fn='h_replace', depth=8, budget_s=200, cfg=dict(K=2),
                 bounds='signatures with <=2 named parameters x annotation subsets x return annotation x 5 routes',
                 min_nontrivial=300, must_reach=['replace-keeps-type', 'parameter-replace-keeps-rest']),
            dict(name='compare-K2', fn='h_compare', depth=9, budget_s=300, cfg=dict(K=2),
                 bounds='signatures with <=2 named parameters x annotation subsets x return annotation x 5 routes x 13 comparison partners',
                 min_nontrivial=500, must_reach=['signature-compare-does-not-raise', 'signature-eq-symmetric',
                                                 'signature-eq-implies-same-hash', 'parameter-hashable-like-plain']),
        ]
    return [
        dict(name='bind-K3', fn='h_bind', depth=10, budget_s=3000, cfg=dict(K=3),
             bounds='signatures with <=3 named parameters x 5 routes x calls n<=len+2, every keyword subset incl. foreign',
             min_nontrivial=500),
        dict(name='replace-K3', fn='h_replace', depth=10, budget_s=1200, cfg=dict(K=3),
             bounds='signatures with <=3 named parameters x annotation subsets x return annotation x 5 routes', min_nontrivial=300),
        dict(name='compare-K3', fn='h_compare', depth=10, budget_s=2400, cfg=dict(K=3),
             bounds='signatures with <=3 named parameters x annotation subsets x return annotation x 5 routes x 13 partners',
             min_nontrivial=500),
    ]
