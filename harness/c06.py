"""C06 — discovery from source equals the equivalent explicit declaration."""
import sigtools
from sigtools import _signatures as S, specifiers

from symx import sym, universe as U, progs
from harness.common import *

PROPERTY = 'C06'
LEVEL = 'model_checking'
RULE = ('each CrossHair path derives one program of the forwarding grammar (outer/callee def-lists, fixed positionals, '
        'keyword names, what the call does with each star, statement context, callee resolution route, taint statement '
        'before/after the call, unresolvable callee); the real sigtools.signature(wrapper) is compared with the value '
        'computed from the generator\'s ground truth through the public algebra only; distinct = distinct program text; '
        'non-trivial = the program forwards at least one star to a resolvable callee')
EXPLANATION = ('Differential check between two routes through the real code (AST discovery vs specifiers.forwards + merge); '
               'the solver explores the grammar exhaustively within the bound. Parameters (name, kind, default) and, for '
               'directly called wrappers, provenance are compared.')
OUTSIDE = 'programs not derivable from the grammar; more than two forwarding calls; def-lists larger than the bound'
ASSUMPTIONS = ['ground truth per star: pristine -> use; absent -> neither; tainted before the call / foreign star / doubled star -> hide']


def expected(p):
    """The declaration route.  -> (signature, 'declared' | 'plain:<why>')"""
    f = p.objs['f']
    B = S.signature(f)
    d = p.decl
    if not p.resolvable:
        return B, 'plain:unresolvable'
    if not (d['use_varargs'] or d['use_varkwargs']):
        return B, 'plain:no-star-forwarded'
    flags = dict(use_varargs=d['use_varargs'], use_varkwargs=d['use_varkwargs'],
                 hide_args=d['hide_args'], hide_kwargs=d['hide_kwargs'])
    try:
        fw = specifiers.forwards(p.objs['wrapper'], p.objs['callee'], d['k'], *d['names'], **flags)
        E = S.merge(*([fw] * p.n_sites))
        if p.route == 'self':
            E = S.mask(E, 1)
        elif p.route == 'param-partial':
            E = S.mask(E, 1)
    except ValueError:
        return B, 'plain:incompatible'
    return E, 'declared'


def h_equal(ctx, cfg):
    p = progs.draw(cfg)
    with sym.notrace():
        ctx.case(p.text, nontrivial=False)
        progs.build(p)
        for ft in p.features:
            ctx.count('prod:' + ft)
    f = p.objs['f']
    try:
        with sym.concrete():
            R = sigtools.signature(f)
    except Exception as e:
        ctx.require('discovery-does-not-raise', False, lambda: dict(exc=repr(e), features=p.label()))
        return
    if p.route == 'param-partial':
        # expected wrapper-level forwarding is declared on the function, then the bound callee is masked off
        pass
    with sym.concrete():
        E, how = expected(p)
    ctx.count('expected:' + how)
    if how == 'declared':
        # the written call can never succeed (the callee cannot be passed these fixed arguments at all): the
        # property lets discovery treat the callee as incompatible and return the plain signature
        with sym.notrace():
            cs = p.callee
            qn = tuple(cs.named) + (progs.FOREIGN_KW,)
            fixed = Acc(cs, Shift(Base(), p.decl['k'], p.decl['names']))
        if ctx.impossible(qn, fixed):
            ctx.count('written-call-impossible')
            B = S.signature(f)
            if params_key(R, True) == params_key(B, True) and sources_key(R) == sources_key(B):
                ctx.count('accepted:plain-for-impossible-call')
                return
    if how == 'declared':
        ctx.nontrivial = True
    info = lambda: dict(discovered=str(R), expected=str(E), how=how, features=p.label())
    ctx.require('same-parameters', params_key(R, True) == params_key(E, True), info)
    if p.route in ('global', 'closure', 'attribute', 'wraps') and how == 'declared':
        ctx.require('same-provenance', sources_key(R) == sources_key(E),
                    lambda: dict(info(), got=sources_key(R), want=sources_key(E)))


_TRAMP = """
BR = [0]

def invoke(func, *a, **k):
    return func(*a, **k)

%s
def wrapper(*args, **kwargs):
%s
"""


def h_trampoline(ctx, cfg):
    """Several forwarding calls through the same relay function, each handing it a different target: the discovered
    signature is the merge of the forwards() to each target (the relay is transparent), or the plain signature when
    the targets are incompatible."""
    import linecache
    count = 2 + (sym.flip('three-targets') if cfg.get('three') else 0)
    specs = U.gen_sigs(count, cfg['K'], cfg.get('total'), allow_stars=cfg.get('allow_stars', False))
    form = ('if-else', 'sequence', 'nested-defs')[sym.pick(3, 'form')]
    order = sym.flip('reversed')
    with sym.notrace():
        idx = list(range(count))
        if order:
            idx.reverse()
        ctx.case('relay[%s] %s order=%s' % (form, render_specs(specs), idx), nontrivial=False)
        defs = ''.join('def t%d(%s):\n    return None\n\n' % (j, sp.deflist()) for j, sp in enumerate(specs))
        calls = ['invoke(t%d, *args, **kwargs)' % j for j in idx]
        if form == 'if-else':
            body = ''.join('    if BR[0] == %d:\n        return %s\n' % (n, c) for n, c in enumerate(calls)) + '    return None\n'
        elif form == 'sequence':
            body = ''.join('    %s\n' % c for c in calls) + '    return None\n'
        else:
            body = ''.join('    def _c%d():\n        return %s\n' % (n, c) for n, c in enumerate(calls)) + \
                '    return [%s]\n' % ', '.join('_c%d()' % n for n in range(len(calls)))
        src = _TRAMP % (defs, body)
        _tramp_counter[0] += 1
        fname = '<symx-relay-%d>' % _tramp_counter[0]
        linecache.cache[fname] = (len(src), None, src.splitlines(True), fname)
        ns = {'__name__': 'symx_relay'}
        exec(compile(src, fname, 'exec'), ns)
    wrapper = ns['wrapper']
    try:
        with sym.concrete():
            R = sigtools.signature(wrapper)
    except Exception as e:
        ctx.require('discovery-does-not-raise', False, lambda: dict(exc=repr(e), text=src))
        return
    with sym.concrete():
        outer = S.signature(wrapper)
        try:
            E = S.merge(*[S.forwards(outer, S.signature(ns['t%d' % j])) for j in idx])
            how = 'merged'
        except ValueError:
            E = outer
            how = 'plain:incompatible-targets'
    ctx.count('expected:' + how)
    ctx.nontrivial = True
    ctx.require('relay-same-parameters', params_key(R, True) == params_key(E, True),
                lambda: dict(discovered=str(R), expected=str(E), how=how))


_tramp_counter = [0]


QUICK = dict(
    shapes=dict(Ko=0, Kc=1, kmax=1, nmax=1),
    contexts=dict(Ko=0, Kc=1, kmax=0, nmax=0),
    taints=dict(Ko=0, Kc=1, kmax=1, nmax=0, form_list=['pristine']),
    unresolvable=dict(Ko=0, Kc=0, kmax=0, nmax=0),
)
QUICK_BOUNDS = ('sum of four focus groups — shapes: 4x4 star forms x <=1 fixed positional x <=1 keyword name (callee or foreign) x '
                'callee <=1 named, bare outer; contexts: 34 statement contexts (incl. loop bodies where a later statement precedes the next call, comprehension targets shadowing a star, except / else / finally / for / while / match / conditional-expression bodies and 9 nested defs / lambdas whose own parameter of any kind shadows a star) x 6 routes x pristine/absent stars; taints: 44 '
                'taint + 7 non-taint statements before/after the call; unresolvable: 5 kinds (incl. a callee that is a local def / lambda of the wrapper while a global has the same name) x 8 contexts')
THOROUGH = dict(
    shapes=dict(Ko=1, Kc=2, kmax=2, nmax=2),
    contexts=dict(Ko=1, Kc=1, kmax=1, nmax=0),
    taints=dict(Ko=1, Kc=1, kmax=1, nmax=1),
    unresolvable=dict(Ko=1, Kc=0, kmax=0, nmax=0),
)


def plan(tier):
    if tier == 'quick':
        return [
            dict(name='grammar-quick', fn='h_equal', depth=10, budget_s=900, cfg=QUICK, bounds=QUICK_BOUNDS,
                 min_nontrivial=500, must_reach=['same-parameters', 'same-provenance']),
            dict(name='posonly-outer', fn='h_equal', depth=8, budget_s=120,
                 cfg=dict(groups=['contexts'], Ko=1, Kc=1, kmax=0, nmax=0, route_list=['self', 'param-partial'],
                          ctx_list=['return', 'nested-def']),
                 bounds='outer with <=1 named parameter (positional-only included) x routes self / param-partial x return / nested def',
                 min_nontrivial=100),
            dict(name='deferred-call-arguments', fn='h_equal', depth=8, budget_s=180,
                 cfg=dict(groups=['full'], Ko=0, Kc=1, kmax=1, nmax=0, form_list=['pristine'], route_list=['global'],
                          ctx_list=['nested-def', 'lambda', 'listcomp', 'genexp', 'nested-shadow-va-posonly',
                                    'nested-shadow-kw-kwonly']),
                 bounds='5 argument expressions (constant, kwargs.pop, hand-off, len(args), walrus) as the fixed positional of a call deferred into a nested def / lambda / comprehension (6 contexts), pristine stars, callee <=1 named',
                 min_nontrivial=100),
            dict(name='relay-two-targets', fn='h_trampoline', depth=8, budget_s=180, cfg=dict(K=1, total=2),
                 bounds='2 forwarding calls through the same relay function with different targets (<=1 named parameter each) x if/else, sequence, nested defs x both orders',
                 min_nontrivial=100, must_reach=['relay-same-parameters']),
        ]
    return [
        dict(name='grammar-thorough', fn='h_equal', depth=12, budget_s=3300, cfg=THOROUGH,
             bounds='the four focus groups with outer <=1 named, callee <=2 named (shapes) / <=1 (others), <=2 fixed positionals, <=2 keyword names; time-limited, evidence says how far it got',
             min_nontrivial=500),
        dict(name='grammar-full-cross', fn='h_equal', depth=12, budget_s=1500,
             cfg=dict(groups=['full'], Ko=0, Kc=1, kmax=1, nmax=1),
             bounds='full cross product of all dimensions with bare outer and callee <=1 named (time-limited)',
             min_nontrivial=500),
    ]
