"""Drawing instances of the four public operations (merge / embed / mask / forwards) from solver
decisions, shared by C02, C03, C04, C08, C10, C15, C16."""
from sigtools import _signatures as S

from symx import sym, universe as U
from harness.common import *

FOREIGN_NAME = 'zq'          # a name no generated signature declares


def draw_names(pool, maxn, dup=False, tag='nm'):
    """Ordered tuple of <= maxn names from pool (duplicate-free unless dup)."""
    out = []
    pool = list(pool)
    while len(out) < maxn and pool and sym.flip(tag + 'more'):
        nm = pool[sym.pick(len(pool), tag)] if len(pool) > 1 else pool[0]
        out.append(nm)
        if not dup:
            pool.remove(nm)
    return tuple(out)


def name_pool(spec, po=False, foreign=True):
    """Candidate names for mask/forwards named arguments: the keyword-capable names of spec
    (positional-only ones only when po), plus a foreign name."""
    pool = [nm for nm, k in zip(spec.names, spec.kinds) if k > 0 or po]
    if foreign:
        pool.append(FOREIGN_NAME)
    return pool


def draw_num_args(spec, extra=2, tag='n'):
    """Symbolic num_args in 0..(number of positional parameters)+extra."""
    npos = sum(1 for k in spec.kinds if k < 2)
    return sym.sym_int(0, npos + extra, tag)


def draw_flags(names, tag='fl'):
    return dict((nm, sym.flip(tag)) for nm in names)


def draw_forwards_flags(flagset='all', tag='fl'):
    """hide_args, hide_kwargs, use_varargs, use_varkwargs, partial.  'lite': partial only with both hide
    flags off (20 of the 32 combinations)."""
    fl = draw_flags(('use_varargs', 'use_varkwargs', 'hide_args', 'hide_kwargs'), tag)
    if flagset == 'all' or not (fl['hide_args'] or fl['hide_kwargs']):
        fl['partial'] = sym.flip(tag)
    else:
        fl['partial'] = False
    return fl


def render_flags(fl):
    return ','.join('%s=%d' % (k, int(v)) for k, v in sorted(fl.items()) if v) or '-'


def plain(sig):
    """Downgrade to a plain inspect.Signature with plain inspect.Parameter objects."""
    import inspect
    return inspect.Signature(
        [inspect.Parameter(p.name, p.kind, default=p.default, annotation=p.annotation)
         for p in sig.parameters.values()],
        return_annotation=sig.return_annotation)


def well_formed(R):
    """-> None when R is a well-formed UpgradedSignature, else a description of what is wrong."""
    import inspect
    if not isinstance(R, S.UpgradedSignature):
        return 'not an UpgradedSignature: %r' % (type(R),)
    ps = list(R.parameters.values())
    for p in ps:
        if not isinstance(p, S.UpgradedParameter):
            return 'parameter %s is not upgraded' % p.name
        if not isinstance(p.upgraded_annotation, S.UpgradedAnnotation):
            return 'parameter %s has no upgraded annotation' % p.name
    try:
        inspect.Signature([inspect.Parameter(p.name, p.kind, default=p.default, annotation=p.annotation)
                           for p in ps])
    except (ValueError, TypeError) as e:
        return 'does not re-validate: %s' % e
    src = getattr(R, 'sources', None)
    if not isinstance(src, dict) or not isinstance(src.get('+depths'), dict):
        return "no '+depths' map in sources"
    return None
