"""C01 — merge soundness: a call accepted by merge(s1..sn) is accepted by every si."""
from sigtools import _signatures as S

from symx import sym, universe as U
from harness.common import *

PROPERTY = 'C01'
LEVEL = 'model_checking'
RULE = ('each CrossHair path decodes one tuple of signatures from the universe U(K) (structure, '
        'defaults, star parameters, every name-equality pattern); distinct = distinct rendered tuple; '
        'non-trivial = merge returned a signature that accepts at least one call (z3 sat check), so '
        'the unsat obligations are not vacuous')
EXPLANATION = ('Real signatures.merge is executed under CrossHair on every tuple of the bounded '
               'universe (path exhaustion = no further feasible input); for each tuple, z3 decides '
               'over ALL call shapes (n unbounded) that Accept(result,c) & side-condition & '
               '~Accept(input_i,c) is unsatisfiable.')
OUTSIDE = 'signatures with more named parameters than the bound, more inputs than the bound, non-canonical labellings'
ASSUMPTIONS = ['foreign keywords are represented by one Boolean (all names outside the inputs behave alike)',
               "star-parameter names are not used as keywords of the call (they behave like foreign keywords)"]


def h_merge(ctx, cfg):
    specs = U.gen_sigs(cfg['arity'], cfg['K'], cfg.get('total'), star_variants=cfg.get('stars', False),
                       reverse_pool=cfg.get('reverse_pool', False))
    with sym.notrace():
        ctx.case('merge ' + render_specs(specs), nontrivial=False)
        sigs = [U.sig_of(s, 'f%d' % j)[0] for j, s in enumerate(specs)]
    try:
        with sym.concrete():
            R = S.merge(*sigs)      # the real code on this path's concrete tuple
    except ValueError:
        ctx.count('raised')
        return
    with sym.notrace():
        shapes = [s.shape() for s in specs]
        rs = shape_of(R)
        names = all_names(shapes + [rs])
        ctx.count('returned')
        cons = role_consistent(shapes)
        ctx.count('role_consistent' if cons else 'role_inconsistent')
        info = lambda: dict(result=str(R))
        some_rejects = Or(*[Not(Acc(si)) for si in shapes])
    if ctx.satisfiable(names, Acc(rs)):
        ctx.nontrivial = True
    if not ctx.refute('allpos-allkw', names, And(Acc(rs), AllPosOrAllKw(), some_rejects), info):
        return
    if cons:
        ctx.refute('noncoll', names, And(Acc(rs), NonColl(rs.kwable, names), some_rejects), info)


def plan(tier):
    if tier == 'quick':
        return [
            dict(name='pairs-K2-stars', fn='h_merge', depth=9, budget_s=420,
                 cfg=dict(arity=2, K=2, stars=True),
                 bounds='pairs, <=2 named parameters each, equal/different star names',
                 min_nontrivial=1000, must_reach=['allpos-allkw', 'noncoll']),
            dict(name='triples-total2', fn='h_merge', depth=9, budget_s=420,
                 cfg=dict(arity=3, K=2, total=2),
                 bounds='triples, <=2 named parameters in total',
                 min_nontrivial=1000, must_reach=['allpos-allkw', 'noncoll']),
        ]
    return [
        dict(name='pairs-K3-total5', fn='h_merge', depth=10, budget_s=2400,
             cfg=dict(arity=2, K=3, total=5, stars=True),
             bounds='pairs, <=3 named each, <=5 in total, equal/different star names',
             min_nontrivial=1000, must_reach=['allpos-allkw', 'noncoll']),
        dict(name='triples-K2-total4', fn='h_merge', depth=10, budget_s=2400,
             cfg=dict(arity=3, K=2, total=4),
             bounds='triples, <=2 named each, <=4 named in total', min_nontrivial=1000),
        dict(name='quads-total2', fn='h_merge', depth=9, budget_s=900,
             cfg=dict(arity=4, K=2, total=2), bounds='4-tuples, <=2 named in total', min_nontrivial=100),
        dict(name='pairs-K2-reversed-pool', fn='h_merge', depth=9, budget_s=600,
             cfg=dict(arity=2, K=2, reverse_pool=True),
             bounds='pairs K<=2 under the reversed name pool (renaming-invariance probe)', min_nontrivial=1000),
    ]
