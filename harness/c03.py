"""C03 — mask: exact residual signature, order independence, laws, hide_* flags."""
from sigtools import _signatures as S

from symx import sym, universe as U
from harness.common import *
from harness.algebra import *
from symx.callshape import Hidden

PROPERTY = 'C03'
LEVEL = 'model_checking'
RULE = ('each CrossHair path decodes one mask instance: a signature from U(K), num_args (a z3 integer in '
        '0..len+2 that stays symbolic through the real mask), a duplicate-free ordered tuple of names from the '
        'non-positional-only parameter names plus a foreign name, hide flags; distinct = distinct rendered '
        'instance; non-trivial = mask returned a signature and the z3 obligations were evaluated')
EXPLANATION = ('Per instance z3 decides over all call shapes (m unbounded) that Accept(mask(sig,n,names),(m,kw,fo)) <=> '
               'Accept(sig,(n+m, kw+names, fo)) for non-colliding calls disjoint from names; that a ValueError '
               'coincides with unsatisfiability of the right-hand side; hide flags: finite disjunction over the '
               'hidden arguments. Order independence and the composition laws compare results of the real function.')
OUTSIDE = 'signatures with more named parameters than the bound; more names than the bound; num_args > len+2; names naming positional-only parameters'
ASSUMPTIONS = ['foreign keywords are represented by one Boolean plus one explicit foreign name',
               'hide_* soundness: hidden positionals/keywords are existentially quantified by finite expansion '
               '(positional count up to len+1, keyword subsets of the keyword-passable names, a foreign keyword); '
               'with hide_kwargs the listed names are subsumed by the hidden keywords']

HIDES = ('hide_args', 'hide_kwargs', 'hide_varargs', 'hide_varkwargs')


def h_exact(ctx, cfg):
    spec = U.gen_sigs(1, cfg['K'])[0]
    names = draw_names(name_pool(spec), cfg.get('names', 2))
    n = draw_num_args(spec)
    with sym.notrace():
        ctx.case('mask %r n=? names=%s' % (spec, ','.join(names) or '-'), nontrivial=False)
        sig = U.sig_of(spec, 'f0')[0]
        sh = spec.shape()
    R = err = None
    try:
        R = S.mask(sig, n, *names)
    except ValueError as e:
        err = e
    if len(names) > 1:
        R2 = err2 = None
        try:
            R2 = S.mask(sig, n, *sorted(names))
        except ValueError as e:
            err2 = e
        # equality as inspect.Signature defines it: positional parameters in order, keyword-only ones as a set
        canon = lambda sig: (tuple(e for e in params_key(sig) if e[1] != 3), frozenset(e for e in params_key(sig) if e[1] == 3))
        same = (R is None) == (R2 is None) and (R is None or canon(R) == canon(R2))
        ctx.require('order-independent', same,
                    lambda: dict(n=n, given=str(R) if R is not None else repr(err),
                                 sorted=str(R2) if R2 is not None else repr(err2)))
    nv = sym.realize(n)
    with sym.notrace():
        qnames = tuple(sh.named) + (FOREIGN_NAME,)
        rhs = Acc(sh, Shift(Base(), nv, names))
        disj = KwDisjoint(names)
        info = lambda: dict(n=nv, result=str(R) if R is not None else repr(err))
    if R is None:
        ctx.count('raised')
        ctx.refute('raise-only-if-impossible', qnames, And(rhs, disj), info)
        return
    ctx.count('returned')
    ctx.nontrivial = True
    with sym.notrace():
        rs = shape_of(R)
        nc = NonColl(rs.kwable, sh.named)
    ctx.must_be_sat('returned-only-if-possible', qnames, And(rhs, disj), info)
    ctx.refute('exact-sound', qnames, And(Acc(rs), nc, disj, Not(rhs)), info)
    ctx.refute('exact-complete', qnames, And(rhs, nc, disj, Not(Acc(rs))), info)


def h_laws(ctx, cfg):
    spec = U.gen_sigs(1, cfg['K'])[0]
    n = draw_num_args(spec, tag='n')
    m = draw_num_args(spec, tag='m')
    with sym.notrace():
        ctx.case('mask-laws %r n=? m=?' % (spec,), nontrivial=True)
        sig = U.sig_of(spec, 'f0')[0]
    r0 = S.mask(sig)
    ctx.require('mask(s,0)=s', params_key(r0, True) == params_key(sig, True) and
                sources_key(r0) == sources_key(sig), lambda: dict(got=str(r0)))
    A = B = ea = eb = None
    try:
        A = S.mask(S.mask(sig, n), m)
    except ValueError as e:
        ea = e
    try:
        B = S.mask(sig, n + m)
    except ValueError as e:
        eb = e
    info = lambda: dict(n=n, m=m, nested=str(A) if A is not None else repr(ea),
                        direct=str(B) if B is not None else repr(eb))
    if ctx.require('compose-same-outcome', (A is None) == (B is None), info) and A is not None:
        ctx.require('compose-same-params', params_key(A, True) == params_key(B, True), info)
        ctx.require('compose-same-sources', sources_key(A) == sources_key(B), info)


def _removed_class(kind, hides):
    """Is a parameter of this original kind (0 po, 1 pok, 2 kwo, 'va', 'vk') removed by the flags?"""
    if kind in (0, 1) and hides['hide_args']:
        return True
    if kind in (1, 2) and hides['hide_kwargs']:
        return True
    if kind == 'va' and (hides['hide_args'] or hides['hide_varargs']):
        return True
    if kind == 'vk' and (hides['hide_kwargs'] or hides['hide_varkwargs']):
        return True
    return False


def h_hide(ctx, cfg):
    spec = U.gen_sigs(1, cfg['K'])[0]
    names = draw_names(name_pool(spec), cfg.get('names', 1))
    hides = draw_flags(HIDES)
    n = draw_num_args(spec)
    with sym.notrace():
        ctx.case('mask %r n=? names=%s %s' % (spec, ','.join(names) or '-', render_flags(hides)), nontrivial=False)
        sig = U.sig_of(spec, 'f0')[0]
        sh = spec.shape()
    if not any(hides.values()):
        return
    try:
        R = S.mask(sig, n, *names, **hides)
    except ValueError as e:
        ctx.count('raised')
        # the flags only remove parameters: they may not turn arguments that sig can be passed into an error --
        # except hide_args together with a name that is itself a positional parameter (the flag says the hidden
        # positionals fill every positional parameter: the declaration contradicts itself, 10.3)
        try:
            S.mask(sig, n, *names)
        except ValueError:
            return
        with sym.notrace():
            kinds = dict(zip(spec.names, spec.kinds))
            contradictory = hides['hide_args'] and any(kinds.get(nm) in (0, 1) for nm in names)
        ctx.nontrivial = True
        ctx.require('hide-flags-do-not-make-it-raise', contradictory,
                    lambda: dict(exc=repr(e), n=sym.pin(n), names=list(names)))
        return
    ctx.count('returned')
    ctx.nontrivial = True
    nv = sym.realize(n)
    with sym.notrace():
        okind = dict(zip(spec.names, spec.kinds))
        if spec.va:
            okind[spec.stars[0]] = 'va'
        if spec.vk:
            okind[spec.stars[1]] = 'vk'
        rk = {0: 0, 1: 1, 3: 2, 2: 'va', 4: 'vk'}
        info = lambda: dict(n=nv, result=str(R))
        bad = [p.name for p in R.parameters.values()
               if p.name not in okind or not (rk[int(p.kind)] == okind[p.name] or
                                              (okind[p.name] == 1 and rk[int(p.kind)] in (0, 2)))]
        present = [p.name for p in R.parameters.values() if _removed_class(okind.get(p.name), hides)]
    ctx.require('hide-only-removes', not bad, lambda: dict(info(), extra=bad))
    ctx.require('hide-removes-class', not present, lambda: dict(info(), still_present=present))
    if not names:
        try:
            R0 = S.mask(sig, 0 if hides['hide_args'] else nv)
        except ValueError:
            R0 = None
        if R0 is not None:
            exp = [e for e in params_key(R0) if not _removed_class(okind[e[0]], hides)]
            ctx.require('hide-exactly', list(params_key(R)) == exp, lambda: dict(info(), expected=exp))
    with sym.notrace():
        rs = shape_of(R)
        qnames = tuple(sh.named) + (FOREIGN_NAME,)
        npos = sh.npos
        if hides['hide_args']:
            nterms = [dict(set_n=h) for h in range(npos + 2)]
        elif hides['hide_varargs']:
            nterms = [dict(add_n=nv + h) for h in range(2)]
        else:
            nterms = [dict(add_n=nv)]
        if hides['hide_kwargs']:
            kw = sorted(sh.kwable)
            import itertools
            kterms = [c for r in range(len(kw) + 1) for c in itertools.combinations(kw, r)]
        else:
            kterms = [tuple(names)]
        fterms = [False, True] if (hides['hide_kwargs'] or hides['hide_varkwargs']) else [False]
        alts = [Acc(sh, Hidden(Base(), names=k, fo=f, **nt)) for nt in nterms for k in kterms for f in fterms]
        nc = NonColl(rs.kwable, sh.named)
    ctx.refute('hide-sound', qnames, And(Acc(rs), nc, KwDisjoint(names), Not(Or(*alts))), info)


def plan(tier):
    if tier == 'quick':
        return [
            dict(name='exact-K2-names2', fn='h_exact', depth=8, budget_s=240, cfg=dict(K=2, names=2),
                 bounds='<=2 named parameters, num_args 0..len+2, <=2 names in every order', min_nontrivial=300,
                 must_reach=['exact-sound', 'exact-complete', 'order-independent', 'raise-only-if-impossible']),
            dict(name='exact-K3-names1', fn='h_exact', depth=8, budget_s=240, cfg=dict(K=3, names=1),
                 bounds='<=3 named parameters, num_args 0..len+2, <=1 name', min_nontrivial=300),
            dict(name='exact-K4-names0', fn='h_exact', depth=9, budget_s=240, cfg=dict(K=4, names=0),
                 bounds='<=4 named parameters, num_args 0..len+2, no names', min_nontrivial=300),
            dict(name='laws-K3', fn='h_laws', depth=8, budget_s=240, cfg=dict(K=3),
                 bounds='<=3 named parameters, n and m symbolic in 0..len+2', min_nontrivial=300,
                 must_reach=['mask(s,0)=s', 'compose-same-params']),
            dict(name='hide-K2-names1', fn='h_hide', depth=8, budget_s=240, cfg=dict(K=2, names=1),
                 bounds='<=2 named parameters, num_args 0..len+2, <=1 name, 15 non-empty hide combinations',
                 min_nontrivial=300, must_reach=['hide-sound', 'hide-removes-class', 'hide-exactly']),
        ]
    return [
        dict(name='exact-K3-names3', fn='h_exact', depth=10, budget_s=2400, cfg=dict(K=3, names=3),
             bounds='<=3 named parameters, num_args 0..len+2, <=3 names in every order', min_nontrivial=300),
        dict(name='exact-K4-names2', fn='h_exact', depth=10, budget_s=2400, cfg=dict(K=4, names=2),
             bounds='<=4 named parameters, num_args 0..len+2, <=2 names in every order', min_nontrivial=300),
        dict(name='laws-K4', fn='h_laws', depth=10, budget_s=1200, cfg=dict(K=4),
             bounds='<=4 named parameters, n and m symbolic in 0..len+2', min_nontrivial=300),
        dict(name='hide-K3-names2', fn='h_hide', depth=10, budget_s=2400, cfg=dict(K=3, names=2),
             bounds='<=3 named parameters, num_args 0..len+2, <=2 names, 15 non-empty hide combinations', min_nontrivial=300),
    ]
