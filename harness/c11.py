"""C11 — postponed (PEP 563) annotations resolve in their defining context through every operation."""
import functools

import sigtools
from sigtools import _signatures as S, modifiers

from symx import sym, universe as U
from harness.common import *
from harness.algebra import *

PROPERTY = 'C11'
LEVEL = 'model_checking'
RULE = ('each CrossHair path decodes one or two functions from U(K), which parameters are annotated, whether a return '
        'annotation is present, and an operation; every function is compiled TWICE (with and without `from __future__ '
        'import annotations`) with ITS OWN globals in which the annotation name T is bound to its own z3 integer (the same '
        'spelling in every function); distinct = distinct rendered instance; non-trivial = the operation returned')
EXPLANATION = ('On the postponed twin, source_value() of every parameter / return annotation must equal the z3 integer bound '
               'in the globals of the function that declared it, and evaluated() must give the annotations of the eager '
               'twin. A wrong-globals evaluation or a string-level comparison of annotations is a z3 model with T1 != T2.')
OUTSIDE = 'signatures with more named parameters than the bound; annotations that are not a single global name; nested scopes'
ASSUMPTIONS = ['annotation values are modelled as integers']

OPS = ('retrieve', 'merge', 'embed', 'mask', 'forwards', 'kwoargs', 'posoargs', 'annotate', 'partial', 'discovery')


def _fn(spec, tag, ann_on, has_ret, T, postponed, body='    return locals()', extra_globs=None):
    ann = dict((nm, 'T') for nm, on in zip(spec.names, ann_on) if on)
    globs = {'T': T}
    globs.update(extra_globs or {})
    return U.make_function(spec.deflist(annotations=ann), body=body, name=tag, globs=globs,
                           future_annotations=postponed, returns='T' if has_ret else None)


def _ann_of(sig, name):
    p = sig.parameters[name]
    return p.annotation


def h_ops(ctx, cfg):
    op = OPS[sym.pick(len(OPS), 'op')]
    two = op in ('merge', 'embed', 'forwards', 'discovery')
    if op == 'discovery':
        callee = U.gen_sigs(1, cfg['K'], allow_stars=cfg.get('allow_stars', True))[0]
        specs = [U.Spec((), (), True, True, ()), callee]
    elif two:
        specs = U.gen_sigs(2, cfg['K'], cfg.get('total'), allow_stars=cfg.get('allow_stars', True))
    else:
        specs = U.gen_sigs(1, cfg['K'], allow_stars=cfg.get('allow_stars', True))
    ann_on = [[sym.flip('ann') for _ in s.names] for s in specs]
    has_ret = [sym.flip('ret') for _ in specs]
    Ts = [sym.sym_val('T') for _ in specs]
    extra = None
    if op == 'mask':
        n = sym.pick(sum(1 for k in specs[0].kinds if k < 2) + 3, 'n')
    elif op == 'forwards':
        n = sym.pick(sum(1 for k in specs[1].kinds if k < 2) + 3, 'n')
    elif op in ('kwoargs', 'posoargs'):
        poks = [nm for nm, k in zip(specs[0].names, specs[0].kinds) if k == 1]
        extra = poks[sym.pick(len(poks), 'sel')] if poks else None
    elif op == 'annotate':
        extra = specs[0].names[sym.pick(len(specs[0].names), 'sel')] if specs[0].names else None
        V = sym.sym_val('V')
    elif op == 'partial':
        cnt = sym.pick(2, 'cnt')
    with sym.notrace():
        def rend(s, a, r):
            return '(%s)%s' % (s.deflist(annotations=dict((nm, 'T') for nm, on in zip(s.names, a) if on)),
                               ' -> T' if r else '')
        ctx.case('%s %s%s' % (op, ' | '.join(rend(s, a, r) for s, a, r in zip(specs, ann_on, has_ret)),
                              (' sel=%s' % extra) if extra else ''), nontrivial=False)

    def compute(postponed):
        if op == 'discovery':
            cal = _fn(specs[1], 'callee', ann_on[1], has_ret[1], Ts[1], postponed)
            fns = [_fn(specs[0], 'wrapper', ann_on[0], has_ret[0], Ts[0], postponed,
                       body='    return callee(*args, **kwargs)', extra_globs={'callee': cal}), cal]
            return sigtools.signature(fns[0]), fns
        fns = [_fn(s, 'f%d' % j, ann_on[j], has_ret[j], Ts[j], postponed) for j, s in enumerate(specs)]
        sigs = [S.signature(f) for f in fns]
        if op == 'retrieve':
            return sigtools.signature(fns[0]), fns
        if op == 'merge':
            return S.merge(*sigs), fns
        if op == 'embed':
            return S.embed(*sigs), fns
        if op == 'mask':
            return S.mask(sigs[0], n), fns
        if op == 'forwards':
            return S.forwards(sigs[0], sigs[1], n), fns
        if op == 'kwoargs':
            d = modifiers.kwoargs(extra)(fns[0]) if extra else fns[0]
            return sigtools.signature(d), fns
        if op == 'posoargs':
            d = modifiers.posoargs(extra)(fns[0]) if extra else fns[0]
            return sigtools.signature(d), fns
        if op == 'annotate':
            d = modifiers.annotate(V, **{extra: V})(fns[0]) if extra else modifiers.annotate(V)(fns[0])
            return sigtools.signature(d), fns
        if op == 'partial':
            return S.signature(functools.partial(fns[0], *([0] * cnt))), fns
        raise AssertionError(op)

    # dry run with concrete annotation values: sigtools formats parameters into its ValueError messages,
    # which would make CrossHair enumerate the symbolic values
    with sym.notrace():
        saved = (list(Ts), V if op == 'annotate' else None)
        for j in range(len(Ts)):
            Ts[j] = 3000 + j
        if op == 'annotate':
            V = 4000
        try:
            compute(False)
            dry_raises = False
        except ValueError:
            dry_raises = True
        Ts[:] = saved[0]
        if op == 'annotate':
            V = saved[1]
    if dry_raises:
        ctx.count('raised')
        return
    try:
        Re, fe = compute(False)
        Rp, fp = compute(True)
    except ValueError:
        ctx.count('raised')
        return
    ctx.nontrivial = True
    info = lambda: dict(eager=str(Re), postponed=str(Rp))
    try:
        Rp.evaluated()
        for _p in Rp.parameters.values():
            _p.upgraded_annotation.source_value()
        Rp.upgraded_return_annotation.source_value()
    except Exception as e:
        ctx.require('postponed-annotations-evaluate-without-raising', False, lambda: dict(exc=repr(e), op=op))
        return
    ctx.require('same-parameters', [(p.name, int(p.kind)) for p in Re.parameters.values()] ==
                [(p.name, int(p.kind)) for p in Rp.parameters.values()], info)
    Ev = Rp.evaluated()
    for nm in Re.parameters:
        pe = Re.parameters[nm]; pp = Rp.parameters.get(nm); pv = Ev.parameters.get(nm)
        if pp is None:
            continue
        i2 = lambda: dict(info(), name=nm, annotated_inputs=sum(1 for a in ann_on if any(a)))
        # twin relation
        if pe.annotation is pe.empty:
            ctx.require('twin-evaluated-equal', pv.annotation is pv.empty, i2)
        else:
            ctx.require('twin-evaluated-equal', pv.annotation is not pv.empty and pv.annotation == pe.annotation, i2)
        ctx.require('twin-source-value-equal',
                    (pe.upgraded_annotation.source_value() is pe.empty) == (pp.upgraded_annotation.source_value() is pp.empty)
                    and (pe.upgraded_annotation.source_value() is pe.empty or
                         pe.upgraded_annotation.source_value() == pp.upgraded_annotation.source_value()), i2)
        # defining-context relation (single declaring function)
        decl = [j for j, s in enumerate(specs) if nm in s.names and ann_on[j][s.names.index(nm)]]
        if op == 'annotate' and nm == extra:
            ctx.require('annotate-verbatim', pp.annotation == V and pp.upgraded_annotation.source_value() == V and
                        pe.annotation == V, i2)
        elif len(decl) == 1 and pp.annotation is not pp.empty:
            ctx.require('source-value-from-defining-globals', pp.upgraded_annotation.source_value() == Ts[decl[0]], i2)
    # return annotation: that of the first function (the wrapper / outer / left operand)
    if op == 'annotate':
        ctx.require('annotate-return-verbatim', Rp.upgraded_return_annotation.source_value() == V and
                    Ev.return_annotation == V, info)
    else:
        if has_ret[0]:
            ctx.require('return-source-value-from-defining-globals',
                        Rp.upgraded_return_annotation.source_value() == Ts[0] and Ev.return_annotation == Ts[0] and
                        Re.return_annotation == Ts[0], info)
        else:
            ctx.require('return-empty', Ev.return_annotation is Ev.empty and Re.return_annotation is Re.empty, info)


def plan(tier):
    if tier == 'quick':
        return [
            dict(name='ops-K2-nostars', fn='h_ops', depth=9, budget_s=300, cfg=dict(K=2, total=2, allow_stars=False),
                 bounds='10 operations x functions with <=2 named parameters (<=2 in total for binary operations), no star parameters (discovery: bare (*args, **kwargs) wrapper) x annotation subsets x return annotation; eager and postponed twins; per-function globals',
                 min_nontrivial=300, must_reach=['twin-evaluated-equal', 'source-value-from-defining-globals',
                                                 'annotate-verbatim', 'return-source-value-from-defining-globals']),
        ]
    return [
        dict(name='ops-K1-stars', fn='h_ops', depth=10, budget_s=1500, cfg=dict(K=1),
             bounds='10 operations x functions with <=1 named parameter each, star parameters included x annotation subsets x return annotation',
             min_nontrivial=300),
        dict(name='ops-K2-total3-nostars', fn='h_ops', depth=10, budget_s=2400, cfg=dict(K=2, total=3, allow_stars=False),
             bounds='10 operations x functions with <=2 named parameters (<=3 in total for binary operations), no star parameters',
             min_nontrivial=300),
    ]
