"""Helpers shared by the per-property harnesses."""
from symx import sym, universe as U
from symx.callshape import (Shape, shape_of, Acc, Exec, Site, NonColl, AllPosOrAllKw, KwDisjoint,
                            And, Or, Not, Const, Base, Shift, Fwd, NLe, ChainExec, role_consistent,
                            name_aligned, roles)


def all_names(shapes):
    out = []
    for s in shapes:
        for nm in s.named:
            if nm not in out:
                out.append(nm)
    return tuple(out)


def render_specs(specs):
    return ' | '.join(repr(s) for s in specs)


def params_key(sig, values=False):
    """Structural identity of a signature's parameters: (name, kind, has-default[, default])."""
    out = []
    for p in sig.parameters.values():
        e = (p.name, int(p.kind), p.default is not p.empty)
        if values:
            e += (p.default if p.default is not p.empty else None,)
        out.append(e)
    return tuple(out)


def sources_key(sig):
    """Provenance as comparable data: {name: [callable names]}, {callable name: depth}."""
    src = getattr(sig, 'sources', {})
    fn = lambda f: getattr(f, '__qualname__', None) or repr(f)
    named = dict((k, [fn(f) for f in v]) for k, v in src.items() if k != '+depths')
    depths = dict((fn(f), d) for f, d in src.get('+depths', {}).items())
    return named, depths
