"""C09 — merge exactness on name-aligned inputs; identity / neutral / round-trip / fold laws."""
from sigtools import _signatures as S

from symx import sym, universe as U
from harness.common import *

PROPERTY = 'C09'
LEVEL = 'model_checking'
RULE = ('each CrossHair path decodes one tuple of signatures from U(K) (structure, defaults, stars, every '
        'name-equality pattern) and runs the real merge / sort_params / apply_params on it; distinct = distinct '
        'rendered tuple; non-trivial = the tuple satisfies the law\'s precondition (name-aligned and '
        'role-consistent for exactness; role-consistent for the fold law) and the obligations were evaluated')
EXPLANATION = ('Exactness: for every name-aligned, role-consistent pair z3 decides over all call shapes that '
               'And_i Accept(s_i,c) & NonColl & ~Accept(merge,c) is unsat and that the converse is unsat; when '
               'merge raises, that And_i Accept(s_i,c) restricted to calls whose keywords are keyword-passable '
               'wherever declared is unsat. Laws are structural equalities (name, kind, default, annotation, '
               'provenance) between results of the real functions.')
OUTSIDE = 'signatures with more named parameters than the bound; more than three inputs'
ASSUMPTIONS = ['foreign keywords are represented by one Boolean',
               'star-parameter names are not used as keywords of the call']


def _kwable_everywhere(shapes, names):
    """Keywords that may be used in the raise-condition query: a name declared by some input must be
    keyword-passable in every input declaring it."""
    bad = []
    for nm in names:
        decl = [s for s in shapes if nm in s.named]
        if decl and not all(nm in s.kwable for s in decl):
            bad.append(nm)
    return bad


def h_exact(ctx, cfg):
    specs = U.gen_sigs(2, cfg['K'], cfg.get('total'), star_variants=cfg.get('stars', False))
    with sym.notrace():
        shapes = [s.shape() for s in specs]
        ok = role_consistent(shapes) and name_aligned(shapes)
        ctx.case('merge ' + render_specs(specs), nontrivial=ok)
        if not ok:
            ctx.count('precondition_false')
            return
        sigs = [U.sig_of(s, 'f%d' % j)[0] for j, s in enumerate(specs)]
    try:
        with sym.concrete():
            R = S.merge(*sigs)
    except ValueError:          # (which ValueError subclass is C15's business)
        with sym.notrace():
            names = all_names(shapes)
            ctx.count('raised')
            both = And(*[Acc(si) for si in shapes])
            ctx.refute('raise-only-if-no-call', names,
                       And(both, KwDisjoint(_kwable_everywhere(shapes, names))))
        return
    with sym.notrace():
        rs = shape_of(R)
        names = all_names(shapes + [rs])
        ctx.count('returned')
        info = lambda: dict(result=str(R))
        both = And(*[Acc(si) for si in shapes])
        nc = NonColl(rs.kwable, names)
    ctx.refute('exact-complete', names, And(both, nc, Not(Acc(rs))), info)
    ctx.refute('exact-sound', names, And(Acc(rs), nc, Not(both)), info)


def _same(a, b, values=True):
    return params_key(a, values) == params_key(b, values)


def _equal(a, b):
    """identity laws: same parameters, same return annotation, and equal as (upgraded) signatures."""
    return _same(a, b) and a.return_annotation == b.return_annotation and a == b and b == a


def _ann_key(sig):
    return tuple((p.name, p.annotation is not p.empty) for p in sig.parameters.values())


def _unstar(key):
    """parameter key with star names erased (VAR_POSITIONAL=2, VAR_KEYWORD=4)."""
    return tuple(((e[0] if e[1] not in (2, 4) else '*'),) + tuple(e[1:]) for e in key)


def h_unary(ctx, cfg):
    specs = U.gen_sigs(1, cfg['K'])
    s0 = specs[0]
    with_ret = sym.flip('return-annotation')
    with sym.notrace():
        ctx.case('laws ' + render_specs(specs) + (' -> int' if with_ret else ''), nontrivial=True)
        sig, fn = U.sig_of(s0, 'f0')
        if with_ret:
            import types
            fn_r = types.FunctionType(fn.__code__, fn.__globals__, fn.__name__, fn.__defaults__, fn.__closure__)
            fn_r.__kwdefaults__ = fn.__kwdefaults__
            fn_r.__annotations__ = {'return': int}
            sig = S.signature(fn_r)
        star = U.Spec((), (), True, True, ())
        star_sig, star_fn = U.sig_of(star, 'g')
        alt = U.Spec((), (), True, True, (), U.STAR_ALT)
        alt_sig, _ = U.sig_of(alt, 'g2')
    info = lambda: dict(sig=str(sig))
    r1 = S.merge(sig)
    ctx.require('merge(s)=s', _equal(r1, sig) and sources_key(r1) == sources_key(sig), info)
    r2 = S.merge(sig, sig)
    ctx.require('merge(s,s)=s', _equal(r2, sig), info)
    for label, other in (('args', star_sig), ('rest', alt_sig)):
        r3 = S.merge(sig, other)
        # (merge builds its result from its first operand: the return annotation is the first operand's, so on the
        #  right the whole signature is compared, on the left the parameters)
        ctx.require('neutral-right[%s]' % label, _unstar(params_key(r3, True)) == _unstar(params_key(sig, True)) and
                    r3.return_annotation == sig.return_annotation,
                    lambda: dict(sig=str(sig), got=str(r3)))
        r4 = S.merge(other, sig)
        ctx.require('neutral-left[%s]' % label, _unstar(params_key(r4, True)) == _unstar(params_key(sig, True)),
                    lambda: dict(sig=str(sig), got=str(r4)))
    sp = S.sort_params(sig)
    r5 = S.apply_params(sig, *sp)
    ctx.require('apply(sort(s))=s', _equal(r5, sig), info)
    sp2 = S.sort_params(sig, sources=True)
    r6 = S.apply_params(sig, *sp2)
    ctx.require('apply(sort(s,sources))=s', _equal(r6, sig) and sources_key(r6) == sources_key(sig), info)


def h_fold(ctx, cfg):
    specs = U.gen_sigs(3, cfg['K'], cfg.get('total'))
    with sym.notrace():
        shapes = [s.shape() for s in specs]
        ok = role_consistent(shapes)
        ctx.case('fold ' + render_specs(specs), nontrivial=ok)
        if not ok:
            ctx.count('precondition_false')
            return
        sigs = [U.sig_of(s, 'f%d' % j)[0] for j, s in enumerate(specs)]
    r_n = e_n = r_f = e_f = None
    try:
        r_n = S.merge(*sigs)
    except ValueError as e:
        e_n = e
    try:
        r_f = S.merge(S.merge(sigs[0], sigs[1]), sigs[2])
    except ValueError as e:
        e_f = e
    info = lambda: dict(nary=str(r_n) if r_n is not None else repr(e_n),
                        fold=str(r_f) if r_f is not None else repr(e_f))
    if not ctx.require('fold-same-outcome', (r_n is None) == (r_f is None), info):
        return
    if r_n is None:
        ctx.count('raised')
        return
    ctx.count('returned')
    ctx.require('fold-same-params', _same(r_n, r_f), info)
    ctx.require('fold-same-sources', sources_key(r_n) == sources_key(r_f),
                lambda: dict(nary=sources_key(r_n), fold=sources_key(r_f)))


def plan(tier):
    if tier == 'quick':
        return [
            dict(name='exact-pairs-K2', fn='h_exact', depth=9, budget_s=300, cfg=dict(K=2),
                 bounds='name-aligned role-consistent pairs, <=2 named each',
                 min_nontrivial=500, must_reach=['exact-complete', 'exact-sound', 'raise-only-if-no-call']),
            dict(name='unary-laws-K3', fn='h_unary', depth=6, budget_s=120, cfg=dict(K=3),
                 bounds='all signatures with <=3 named parameters', min_nontrivial=300,
                 must_reach=['merge(s)=s', 'apply(sort(s))=s']),
            dict(name='fold-triples-total2', fn='h_fold', depth=9, budget_s=300, cfg=dict(K=2, total=2),
                 bounds='role-consistent triples, <=2 named in total', min_nontrivial=500,
                 must_reach=['fold-same-params', 'fold-same-sources']),
        ]
    return [
        dict(name='exact-pairs-K3-total5', fn='h_exact', depth=10, budget_s=2400,
             cfg=dict(K=3, total=5, stars=True),
             bounds='name-aligned role-consistent pairs, <=3 named each, <=5 in total, equal/different star names', min_nontrivial=500),
        dict(name='unary-laws-K4', fn='h_unary', depth=8, budget_s=600, cfg=dict(K=4),
             bounds='all signatures with <=4 named parameters', min_nontrivial=300),
        dict(name='fold-triples-K2-total4', fn='h_fold', depth=10, budget_s=2400, cfg=dict(K=2, total=4),
             bounds='role-consistent triples, <=2 named each, <=4 in total', min_nontrivial=500),
    ]
