"""C10 — defaults, annotations, kinds and order of combined parameters follow the stated rules."""
import functools

from sigtools import _signatures as S

from symx import sym, universe as U
from harness.common import *
from harness.algebra import *

PROPERTY = 'C10'
LEVEL = 'model_checking'
RULE = ('each CrossHair path decodes input signatures from U(K) whose default VALUES and annotation VALUES are '
        'fresh z3 integers (annotation presence is drawn per parameter), runs the real merge / embed / mask / '
        'forwards and evaluates the metadata rules on the still-symbolic values: the d1==d2 / a1==a2 case splits '
        'are made by z3; distinct = distinct rendered instance; non-trivial = the operation returned a signature')
EXPLANATION = ('Rules are Python assertions over symbolic integers, so each path covers every assignment of values '
               'consistent with its equality pattern; a falsifying assignment is a z3 model. Contributors of a result '
               'parameter: input parameters of the same name, plus (positional results) the input positional '
               'parameters at the same index.')
OUTSIDE = 'signatures with more named parameters than the bound; non-integer metadata values; role-inconsistent merge inputs'
ASSUMPTIONS = ['annotation and default values are modelled as integers compared with ==']


def _make(spec, tag, ann_on, dv, av):
    values = dict((nm, 'D_' + nm) for nm, d in zip(spec.names, spec.defaults) if d)
    ann = dict((nm, 'A_' + nm) for nm, on in zip(spec.names, ann_on) if on)
    globs = dict(('D_' + nm, dv[nm]) for nm in values)
    globs.update(('A_' + nm, av[nm]) for nm in ann)
    return U.make_function(spec.deflist(values=values, annotations=ann), name=tag, globs=globs)


def _draw_inputs(count, cfg, stars=False):
    specs = U.gen_sigs(count, cfg['K'], cfg.get('total'), star_variants=stars,
                       allow_stars=cfg.get('allow_stars', True))
    ann_on = [[sym.flip('ann') for _ in s.names] for s in specs]
    # a default is None or an opaque value (None is also what merge writes when defaults differ)
    none_ok = cfg.get('none_defaults', True)
    dv = [dict((nm, None if (none_ok and sym.flip('default-is-None')) else sym.sym_val('dv'))
               for nm, d in zip(s.names, s.defaults) if d) for s in specs]
    av = [dict((nm, sym.sym_val('av')) for nm, on in zip(s.names, a) if on) for s, a in zip(specs, ann_on)]
    return specs, ann_on, dv, av


def _concrete_inputs(specs, ann_on):
    """The same functions with concrete metadata values (used for a dry run: sigtools formats parameters
    into its ValueError messages, which would make CrossHair enumerate the symbolic values)"""
    sigs = []
    for j, s in enumerate(specs):
        dv = dict((nm, 1000 + 10 * j + i) for i, nm in enumerate(s.names))
        av = dict((nm, 2000 + 10 * j + i) for i, nm in enumerate(s.names))
        sigs.append(S.signature(_make(s, 'c%d' % j, ann_on[j], dv, av)))
    return sigs


def _would_raise(fn):
    try:
        fn()
    except ValueError:
        return True
    return False


def _render(specs, ann_on):
    out = []
    for s, a in zip(specs, ann_on):
        ann = dict((nm, 'A') for nm, on in zip(s.names, a) if on)
        out.append('(' + s.deflist(default='D', annotations=ann) + ')')
    return ' | '.join(out)


def _positional(sig):
    return [p for p in sig.parameters.values() if p.kind in (p.POSITIONAL_ONLY, p.POSITIONAL_OR_KEYWORD)]


def _contributors(p, pos_index, inputs):
    out = []
    for sig in inputs:
        c = None
        if p.name in sig.parameters:
            c = sig.parameters[p.name]
        elif pos_index is not None:
            ip = _positional(sig)
            if pos_index < len(ip):
                c = ip[pos_index]
        if c is not None and c.kind not in (c.VAR_POSITIONAL, c.VAR_KEYWORD):
            out.append(c)
    return out


def _check_meta(ctx, label, R, inputs, info):
    rpos = _positional(R)
    for p in R.parameters.values():
        if p.kind in (p.VAR_POSITIONAL, p.VAR_KEYWORD):
            continue
        idx = rpos.index(p) if p in rpos else None
        cs = _contributors(p, idx, inputs)
        if not cs:
            ctx.require('has-contributor[%s]' % label, False, lambda: dict(info(), name=p.name))
            continue
        i2 = lambda: dict(info(), name=p.name)
        if label == 'merge' and p.default is p.empty:
            # "its default is their common default value, or None when they differ": when every contributor is
            # optional the merged parameter has a default (for embed/forwards the outer-default rule applies instead)
            ctx.require('optional-when-all-optional[merge]', not all(c.default is not c.empty for c in cs), i2)
        if p.default is not p.empty:
            ctx.require('optional-only-if-all-optional[%s]' % label,
                        all(c.default is not c.empty for c in cs), i2)
            ds = [c.default for c in cs if c.default is not c.empty]
            if ds:
                if all(d == ds[0] for d in ds[1:]):
                    ctx.require('default-is-common-value[%s]' % label, p.default == ds[0], i2)
                else:
                    ctx.require('default-None-when-different[%s]' % label, p.default is None, i2)
        anns = [c.annotation for c in cs if c.annotation is not c.empty]
        if anns and all(a == anns[0] for a in anns[1:]):
            ctx.require('annotation-agreed[%s]' % label, p.annotation is not p.empty and p.annotation == anns[0], i2)
            ctx.require('upgraded-annotation-agreed[%s]' % label,
                        p.upgraded_annotation.source_value() == anns[0], i2)
        else:
            ctx.require('annotation-none-when-disagreeing-or-absent[%s]' % label, p.annotation is p.empty,
                        lambda: dict(i2(), annotated_contributors=len(anns)))
        for c in cs:
            if c.name == p.name:
                ok = c.kind == p.kind or (c.kind == c.POSITIONAL_OR_KEYWORD and
                                           p.kind in (p.POSITIONAL_ONLY, p.KEYWORD_ONLY))
                ctx.require('kind-only-restricts[%s]' % label, ok, i2)
    rnames = [p.name for p in rpos]
    for sig in inputs:
        inn = [p.name for p in _positional(sig)]
        sub = [n for n in rnames if n in inn]
        ctx.require('positional-order-kept[%s]' % label, sub == [n for n in inn if n in sub], info)


def h_merge(ctx, cfg):
    specs, ann_on, dv, av = _draw_inputs(cfg['arity'], cfg)
    with sym.notrace():
        cons = role_consistent([s.shape() for s in specs])
        ctx.case('merge ' + _render(specs, ann_on), nontrivial=False)
        if not cons:
            return
        if _would_raise(lambda: S.merge(*_concrete_inputs(specs, ann_on))):
            ctx.count('raised')
            return
        sigs = [S.signature(_make(s, 'f%d' % j, ann_on[j], dv[j], av[j])) for j, s in enumerate(specs)]
    try:
        R = S.merge(*sigs)
    except ValueError:
        ctx.count('raised')
        return
    ctx.nontrivial = True
    _check_meta(ctx, 'merge', R, sigs, lambda: dict(result=str(R)))


def _check_embed(ctx, label, R, so, si_masked, info):
    """outer before inner within each kind; outer defaults dropped only when a required inner positional follows."""
    onames = set(so.parameters); 
    for kind in (0, 1, 3):
        seq = [p.name for p in R.parameters.values() if int(p.kind) == kind]
        flags = [n in onames for n in seq]
        ctx.require('outer-before-inner[%s]' % label, flags == sorted(flags, reverse=True), info)
    rpos = _positional(R)
    for idx, p in enumerate(rpos):
        if p.name in so.parameters:
            q = so.parameters[p.name]
            if q.default is not q.empty:
                if p.default is p.empty:
                    follows = any(r.name not in onames and r.default is r.empty for r in rpos[idx + 1:])
                    ctx.require('outer-default-dropped-only-before-required-inner[%s]' % label, follows,
                                lambda: dict(info(), name=p.name))
                else:
                    ctx.require('outer-default-value-kept[%s]' % label, p.default == q.default,
                                lambda: dict(info(), name=p.name))
    for p in R.parameters.values():
        if p.kind in (p.VAR_POSITIONAL, p.VAR_KEYWORD):
            continue
        src = so if p.name in so.parameters else si_masked
        q = src.parameters.get(p.name)
        if q is None:
            ctx.require('has-contributor[%s]' % label, False, lambda: dict(info(), name=p.name))
            continue
        i2 = lambda: dict(info(), name=p.name)
        if src is si_masked:
            ctx.require('inner-default-kept[%s]' % label,
                        (p.default is p.empty) == (q.default is q.empty) and
                        (p.default is p.empty or p.default == q.default), i2)
        ctx.require('annotation-kept[%s]' % label,
                    (p.annotation is p.empty) == (q.annotation is q.empty) and
                    (p.annotation is p.empty or p.annotation == q.annotation), i2)
        ok = q.kind == p.kind or (q.kind == q.POSITIONAL_OR_KEYWORD and p.kind in (p.POSITIONAL_ONLY, p.KEYWORD_ONLY))
        ctx.require('kind-only-restricts[%s]' % label, ok, i2)


def h_embed(ctx, cfg):
    specs, ann_on, dv, av = _draw_inputs(2, cfg, stars=cfg.get('stars', False))
    uva = sym.flip('uva'); uvk = sym.flip('uvk')
    with sym.notrace():
        ctx.case('embed %s use_varargs=%d use_varkwargs=%d' % (_render(specs, ann_on), uva, uvk), nontrivial=False)
        if _would_raise(lambda: S.embed(*_concrete_inputs(specs, ann_on), use_varargs=uva, use_varkwargs=uvk)):
            ctx.count('raised')
            return
        sigs = [S.signature(_make(s, 'f%d' % j, ann_on[j], dv[j], av[j])) for j, s in enumerate(specs)]
    try:
        R = S.embed(*sigs, use_varargs=uva, use_varkwargs=uvk)
    except ValueError:
        ctx.count('raised')
        return
    ctx.nontrivial = True
    _check_embed(ctx, 'embed', R, sigs[0], sigs[1], lambda: dict(result=str(R)))


def h_mask(ctx, cfg):
    specs, ann_on, dv, av = _draw_inputs(1, cfg)
    spec = specs[0]
    names = draw_names(name_pool(spec, foreign=False), cfg.get('names', 1))
    n = sym.pick(sum(1 for k in spec.kinds if k < 2) + 3, 'n')
    with sym.notrace():
        ctx.case('mask %s n=%d names=%s' % (_render(specs, ann_on), n, ','.join(names) or '-'), nontrivial=False)
        if _would_raise(lambda: S.mask(_concrete_inputs(specs, ann_on)[0], n, *names)):
            ctx.count('raised')
            return
        sig = S.signature(_make(spec, 'f0', ann_on[0], dv[0], av[0]))
    try:
        R = S.mask(sig, n, *names)
    except ValueError:
        ctx.count('raised')
        return
    ctx.nontrivial = True
    info = lambda: dict(n=n, result=str(R))
    for p in R.parameters.values():
        q = sig.parameters.get(p.name)
        i2 = lambda: dict(info(), name=p.name)
        if not ctx.require('mask-only-keeps[mask]', q is not None, i2):
            continue
        ctx.require('default-kept[mask]', (p.default is p.empty) == (q.default is q.empty) and
                    (p.default is p.empty or p.default == q.default), i2)
        ctx.require('annotation-kept[mask]', (p.annotation is p.empty) == (q.annotation is q.empty) and
                    (p.annotation is p.empty or p.annotation == q.annotation), i2)
        ctx.require('kind-only-restricts[mask]', q.kind == p.kind or
                    (q.kind == q.POSITIONAL_OR_KEYWORD and p.kind == p.KEYWORD_ONLY), i2)
    kept = [p.name for p in R.parameters.values()]
    ctx.require('order-kept[mask]', [n_ for n_ in sig.parameters if n_ in kept and
                                     int(R.parameters[n_].kind) == int(sig.parameters[n_].kind)] ==
                [n_ for n_ in kept if int(R.parameters[n_].kind) == int(sig.parameters[n_].kind)], info)


def h_forwards(ctx, cfg):
    specs, ann_on, dv, av = _draw_inputs(2, cfg)
    names = draw_names(name_pool(specs[1], foreign=False), cfg.get('names', 1))
    n = sym.pick(sum(1 for k in specs[1].kinds if k < 2) + 3, 'n')
    with sym.notrace():
        ctx.case('forwards %s n=%d names=%s' % (_render(specs, ann_on), n, ','.join(names) or '-'), nontrivial=False)
        ci = _concrete_inputs(specs, ann_on)
        if _would_raise(lambda: S.forwards(ci[0], ci[1], n, *names)):
            ctx.count('raised')
            return
        sigs = [S.signature(_make(s, 'f%d' % j, ann_on[j], dv[j], av[j])) for j, s in enumerate(specs)]
    try:
        R = S.forwards(sigs[0], sigs[1], n, *names)
        M = S.mask(sigs[1], n, *names)
    except ValueError:
        ctx.count('raised')
        return
    ctx.nontrivial = True
    _check_embed(ctx, 'forwards', R, sigs[0], M, lambda: dict(n=n, result=str(R)))


def h_partial(ctx, cfg):
    specs, ann_on, dv, av = _draw_inputs(1, cfg)
    spec = specs[0]
    bound = draw_names(name_pool(spec), 2, tag='bk')
    kv = dict((nm, sym.sym_val('kv')) for nm in bound)
    with sym.notrace():
        ctx.case('partial %s bound=%s' % (_render(specs, ann_on), ','.join(bound) or '-'), nontrivial=False)
        if _would_raise(lambda: S.signature(functools.partial(
                _make(spec, 'c0', ann_on[0], dict((nm, 1000 + i) for i, nm in enumerate(spec.names)),
                      dict((nm, 2000 + i) for i, nm in enumerate(spec.names))), **dict((nm, 0) for nm in bound)))):
            ctx.count('raised')
            return
        fn = _make(spec, 'f0', ann_on[0], dv[0], av[0])
    p = functools.partial(fn, **kv)
    try:
        R = S.signature(p)
    except ValueError:
        ctx.count('raised')
        return
    ctx.nontrivial = True
    info = lambda: dict(result=str(R))
    for nm in bound:
        q = R.parameters.get(nm)
        ctx.require('bound-keyword-is-keyword-only-with-bound-default[partial]',
                    q is not None and q.kind == q.KEYWORD_ONLY and q.default is not q.empty and q.default == kv[nm],
                    lambda: dict(info(), name=nm))
    osig = S.signature(fn)
    for q in R.parameters.values():
        o = osig.parameters.get(q.name)
        if o is not None and q.name not in bound:
            ctx.require('default-kept[partial]', (q.default is q.empty) == (o.default is o.empty) and
                        (q.default is q.empty or q.default == o.default), lambda: dict(info(), name=q.name))
        if o is not None:
            ctx.require('annotation-kept[partial]', (q.annotation is q.empty) == (o.annotation is o.empty) and
                        (q.annotation is q.empty or q.annotation == o.annotation), lambda: dict(info(), name=q.name))


def plan(tier):
    if tier == 'quick':
        return [
            dict(name='merge-pairs-total2', fn='h_merge', depth=9, budget_s=420, cfg=dict(arity=2, K=2, total=2),
                 bounds='merge: role-consistent pairs, <=2 named in total, annotation on every subset, symbolic default/annotation values',
                 min_nontrivial=300, must_reach=['default-is-common-value', 'default-None-when-different',
                                                 'annotation-agreed', 'annotation-none-when-disagreeing-or-absent']),
            dict(name='merge-triples-K1', fn='h_merge', depth=9, budget_s=420, cfg=dict(arity=3, K=1, allow_stars=False),
                 bounds='merge: role-consistent triples, <=1 named each, no star parameters', min_nontrivial=300),
            dict(name='embed-pairs-total2', fn='h_embed', depth=9, budget_s=420, cfg=dict(K=2, total=2),
                 bounds='embed: pairs, <=2 named in total, 4 flag combinations', min_nontrivial=300,
                 must_reach=['outer-before-inner', 'annotation-kept']),
            dict(name='mask-K2', fn='h_mask', depth=8, budget_s=200, cfg=dict(K=2, names=1),
                 bounds='mask: <=2 named, num_args 0..len+2, <=1 name', min_nontrivial=200),
            dict(name='forwards-total2', fn='h_forwards', depth=9, budget_s=420, cfg=dict(K=2, total=2, names=0),
                 bounds='forwards: pairs, <=2 named in total, num_args 0..len+2, no names', min_nontrivial=300),
            dict(name='partial-K2', fn='h_partial', depth=8, budget_s=200, cfg=dict(K=2),
                 bounds='partial: <=2 named, <=2 bound keywords incl. foreign, symbolic bound values', min_nontrivial=200,
                 must_reach=['bound-keyword-is-keyword-only-with-bound-default']),
        ]
    return [
        dict(name='merge-pairs-total4', fn='h_merge', depth=10, budget_s=2400, cfg=dict(arity=2, K=2, total=4),
             bounds='merge: role-consistent pairs, <=2 named each', min_nontrivial=300),
        dict(name='merge-triples-total3', fn='h_merge', depth=10, budget_s=2400, cfg=dict(arity=3, K=2, total=3),
             bounds='merge: role-consistent triples, <=3 named in total', min_nontrivial=300),
        dict(name='embed-pairs-total3', fn='h_embed', depth=10, budget_s=2400, cfg=dict(K=2, total=3, stars=True),
             bounds='embed: pairs, <=3 named in total, star-name variants, 4 flag combinations', min_nontrivial=300),
        dict(name='mask-K3', fn='h_mask', depth=10, budget_s=1200, cfg=dict(K=3, names=2),
             bounds='mask: <=3 named, <=2 names', min_nontrivial=200),
        dict(name='forwards-total3', fn='h_forwards', depth=10, budget_s=2400, cfg=dict(K=2, total=3, names=1),
             bounds='forwards: pairs, <=3 named in total, <=1 name', min_nontrivial=300),
        dict(name='partial-K3', fn='h_partial', depth=10, budget_s=1200, cfg=dict(K=3),
             bounds='partial: <=3 named, <=2 bound keywords', min_nontrivial=200),
    ]
