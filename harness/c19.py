"""C19 — functools.partial objects get the signature Python enforces."""
import functools

import sigtools
from sigtools import _signatures as S

from symx import sym, universe as U
from harness.common import *
from harness.algebra import *

PROPERTY = 'C19'
LEVEL = 'model_checking'
RULE = ('each CrossHair path decodes a function from U(K), a binding (count of bound positionals 0..len+1, an ordered '
        'duplicate-free tuple of bound keyword names incl. a foreign one, optional split into two nested partials) '
        'with SYMBOLIC bound values, builds the real functools.partial and retrieves its signature both ways; '
        'distinct = distinct rendered instance; non-trivial = a signature was returned')
EXPLANATION = ('Per partial object z3 decides over all call shapes that Accept(R,(m,kw,fo)) <=> Accept(f,(cnt+m, kw+bound, fo)) '
               'for non-colliding calls, and that ValueError coincides with unsatisfiability of the right-hand side; '
               'the structural clauses compare defaults with the symbolic bound values (z3 validity). Witnesses are '
               'replayed by really calling the partial object.')
OUTSIDE = 'functions with more named parameters than the bound; more than two nested partials; bound keywords naming positional-only parameters'
ASSUMPTIONS = ['foreign keywords are represented by one Boolean plus one explicit foreign name']


_MAX_BOUND = [2]


def cfg_max_bound():
    return _MAX_BOUND[0]


def _build(spec, tag):
    """Draw a binding and build the partial.  -> (p, fn, cnt, bound names, values dict, nested flag)"""
    npos = sum(1 for k in spec.kinds if k < 2)
    cnt = sym.pick(npos + 2, 'cnt')
    bound = draw_names(name_pool(spec), cfg_max_bound(), tag='bk')
    nested = sym.flip('nested') if (cnt or bound) else False
    pvals = [sym.sym_val('pv') for _ in range(cnt)]
    kvals = dict((nm, sym.sym_val('kv')) for nm in bound)
    return cnt, bound, nested, pvals, kvals


def _partial(fn, cnt, bound, nested, pvals, kvals):
    if nested:
        h = cnt // 2
        k1 = dict((nm, kvals[nm]) for nm in bound[:len(bound) // 2])
        k2 = dict((nm, kvals[nm]) for nm in bound[len(bound) // 2:])
        return functools.partial(functools.partial(fn, *pvals[:h], **k1), *pvals[h:], **k2)
    return functools.partial(fn, *pvals, **kvals)


def h_partial(ctx, cfg):
    _MAX_BOUND[0] = cfg.get('max_bound', 2)
    spec = U.gen_sigs(1, cfg['K'])[0]
    cnt, bound, nested, pvals, kvals = _build(spec, 'f0')
    with sym.notrace():
        ctx.case('partial %r cnt=%d bound=%s%s' % (spec, cnt, ','.join(bound) or '-', ' nested' if nested else ''),
                 nontrivial=False)
        fn = U.real_function(spec, 'f0')
        sh = spec.shape()
    p = _partial(fn, cnt, bound, nested, pvals, kvals)
    with sym.notrace():
        qnames = tuple(sh.named) + (FOREIGN_NAME,)
        rhs = Acc(sh, Shift(Base(), cnt, bound), real=p, real_term=Base())
    for route, get in (('plain', S.signature), ('sigtools', sigtools.signature)):
        try:
            R = get(p)
        except Exception as e:      # the exception TYPE is C07's business; here: raising <=> uncallable
            ctx.count('raised-' + route)
            ctx.count('raised-%s-%s' % (route, type(e).__name__))
            ctx.refute('raise-only-if-uncallable[%s]' % route, qnames, rhs, lambda: dict(exc=repr(e)))
            continue
        ctx.count('returned-' + route)
        ctx.nontrivial = True
        info = lambda: dict(result=str(R), route=route)
        with sym.notrace():
            rs = shape_of(R)
            nc = NonColl(rs.kwable, sh.named)
        ctx.must_be_sat('returned-only-if-callable[%s]' % route, qnames, rhs, info)
        ctx.refute('exact-sound[%s]' % route, qnames, And(Acc(rs), nc, Not(rhs)), info)
        ctx.refute('exact-complete[%s]' % route, qnames, And(rhs, nc, Not(Acc(rs))), info)
        # structural clauses
        params = R.parameters
        kinds = dict(zip(spec.names, spec.kinds))
        pos_names = [nm for nm, k in zip(spec.names, spec.kinds) if k < 2]
        gone = [nm for nm in pos_names[:cnt] if nm in params]
        ctx.require('bound-positionals-disappear[%s]' % route, not gone, lambda: dict(info(), still=gone))
        first_bound_pok = None
        for idx, nm in enumerate(pos_names):
            if nm in bound and kinds[nm] == 1:
                first_bound_pok = idx
                break
        if first_bound_pok is not None and first_bound_pok >= cnt:
            tail = pos_names[first_bound_pok:]
            ok = all(nm in params and params[nm].kind == params[nm].KEYWORD_ONLY for nm in tail)
            ctx.require('bound-pok-and-followers-keyword-only[%s]' % route, ok, info)
            ctx.require('bound-pok-removes-varargs[%s]' % route, rs.va is None, info)
        for nm in bound:
            if nm in params:
                ctx.require('bound-value-is-default[%s]' % route, params[nm].default == kvals[nm],
                            lambda: dict(info(), name=nm))
                ctx.require('bound-is-keyword-only[%s]' % route, params[nm].kind == params[nm].KEYWORD_ONLY,
                            lambda: dict(info(), name=nm))
                if nm not in kinds:     # absorbed by **kwargs
                    src = R.sources.get(nm)
                    ctx.require('absorbed-sourced-to-partial[%s]' % route, src is not None and len(src) == 1 and src[0] is p,
                                lambda: dict(info(), name=nm, sources=repr(src)))
            else:
                ctx.require('bound-keyword-present[%s]' % route, False, lambda: dict(info(), name=nm))
        depths = R.sources.get('+depths', {})
        ctx.require('partial-depth-0[%s]' % route, depths.get(p) == 0 and depths.get(fn, 1) == 1,
                    lambda: dict(info(), depths=repr(depths)))


_WRAP_BODY = '    return fn(*args, **kwargs)'


HOLDERS = ('function', 'bound-method', 'classmethod-on-instance', 'classmethod-on-class')


def h_discovery(ctx, cfg):
    """partial(wrapper, callee) / partial(wrapper, fn=callee) where wrapper forwards to its parameter fn."""
    callee = U.gen_sigs(1, cfg['K'])[0]
    own = sym.pick(3, 'own')          # 0: no own parameter, 1: own pok before fn? no: after fn, 2: own kwo
    by_kw = sym.flip('bykw')
    holders = cfg.get('holders', HOLDERS)
    holder = holders[sym.pick(len(holders), 'holder')] if len(holders) > 1 else holders[0]
    with sym.notrace():
        deflist = {0: 'fn, *args, **kwargs', 1: 'fn, own, *args, **kwargs', 2: 'fn, *args, own, **kwargs'}[own]
        ctx.case('partial(%s wrapper(%s), %scallee) callee=%r' % (holder, deflist, 'fn=' if by_kw else '', callee), nontrivial=False)
        if holder == 'function':
            wrapper = U.make_function(deflist, body=_WRAP_BODY, name='wrapper', cache_key=('c19w',))
        else:
            # the partial wraps a bound method / a classmethod read from an instance or from the class
            raw = U.make_function(('self, ' if holder == 'bound-method' else 'cls, ') + deflist, body=_WRAP_BODY,
                                  name='wrapper', cache_key=('c19w', holder))
            klass = type('Holder', (object,), {'wrapper': raw if holder == 'bound-method' else classmethod(raw)})
            wrapper = klass().wrapper if holder != 'classmethod-on-class' else klass.wrapper
        cfn = U.real_function(callee, 'callee')
        ci = callee.shape(real=cfn)
        o = Shape(pok=[('fn', False)] + ([('own', False)] if own == 1 else []), va='args',
                  kwo=[('own', False)] if own == 2 else [], vk='kwargs')
    p = functools.partial(wrapper, fn=cfn) if by_kw else functools.partial(wrapper, cfn)
    try:
        R = sigtools.signature(p)
    except ValueError as e:
        ctx.require('discovery-does-not-raise', False, lambda: dict(exc=repr(e)))
        return
    ctx.nontrivial = True
    info = lambda: dict(result=str(R))
    depths = R.sources.get('+depths', {})
    ctx.require('partial-depth-0', depths.get(p) == 0, lambda: dict(info(), depths=repr(depths)))
    if by_kw:
        B = S.signature(p)
        ctx.require('keyword-does-not-resolve', params_key(R) == params_key(B), lambda: dict(info(), plain=str(B)))
        return
    with sym.notrace():
        rs = shape_of(R)
        names = all_names([o, ci, rs])
        nc = NonColl(rs.kwable, names)
        ex = Exec(o, [(Site(0, (), True, True), ci)], term=Shift(Base(), 1, ()))
        exr = Exec(o, [(Site(0, (), True, True), ci)], real=p)
        exr.z3 = ex.z3          # same formula; real evaluation calls the partial object itself
    ctx.refute('discovery-sound', names, And(Acc(rs), nc, Not(exr)), info)
    B = S.signature(p)
    if params_key(R) == params_key(B):
        ctx.count('fell-back')
        if not (set(ci.named) & set(o.named)):
            # no name clash: a callee that can be called through the wrapper must have been looked through
            ctx.refute('positional-resolves-callee', names, And(exr, Const(bool(ci.named))), info)
    else:
        ctx.count('looked-through')


def plan(tier):
    if tier == 'quick':
        return [
            dict(name='partial-K2', fn='h_partial', depth=8, budget_s=300, cfg=dict(K=2),
                 bounds='functions with <=2 named parameters, 0..len+1 bound positionals, <=2 bound keywords (foreign included) in every order, nested or flat, symbolic bound values',
                 min_nontrivial=500, must_reach=['exact-sound', 'exact-complete', 'raise-only-if-uncallable',
                                                 'bound-value-is-default', 'absorbed-sourced-to-partial']),
            dict(name='partial-K4-positionals', fn='h_partial', depth=9, budget_s=240, cfg=dict(K=4, max_bound=0),
                 bounds='functions with <=4 named parameters, 0..len+1 bound positionals, no bound keywords, nested or flat',
                 min_nontrivial=500),
            dict(name='discovery-K2', fn='h_discovery', depth=6, budget_s=120, cfg=dict(K=2),
                 bounds='wrapper(fn, [own], *args, **kwargs) forwarding to fn — a function, a bound method or a classmethod (read from instance / class) — callee with <=2 named parameters, bound positionally / by keyword',
                 min_nontrivial=100, must_reach=['discovery-sound', 'keyword-does-not-resolve']),
        ]
    return [
        dict(name='partial-K3', fn='h_partial', depth=10, budget_s=2400, cfg=dict(K=3),
             bounds='functions with <=3 named parameters, 0..len+1 bound positionals, <=2 bound keywords in every order, nested or flat, symbolic bound values',
             min_nontrivial=500),
        dict(name='discovery-K3', fn='h_discovery', depth=8, budget_s=600, cfg=dict(K=3),
             bounds='wrapper forwarding to fn, callee with <=3 named parameters', min_nontrivial=100),
    ]
