"""C04 — declared forwarding (forwards / forwards_to_*): the reported signature is safe to call."""
import inspect

import sigtools
from sigtools import _signatures as S

from symx import sym, universe as U, progs
from harness.common import *
from harness.algebra import *
from harness.c05 import _hidden_sites

PROPERTY = 'C04'
LEVEL = 'model_checking'
RULE = ('identity harness: each CrossHair path decodes (outer, inner) from U(K), num_args, names and all flags and compares '
        'forwards(...) with embed(outer, mask(inner, ...)); declared harness: each path derives a program whose wrapper calls '
        'callee(<n positionals>, *args, <names>=..., **kwargs) and is declared accordingly with forwards_to_function / '
        'forwards_to_method / forwards_to_super / apply_forwards_to_super (emulate on/off, partial on/off, bound/unbound); '
        'distinct = distinct rendered instance / program text; non-trivial = a signature was returned and z3 obligations ran')
EXPLANATION = ('For every declared wrapper z3 decides over all call shapes that Accept(R,c) & NonColl & ~Exec(program,c) is unsat '
               '(Exec: the wrapper\'s def-list accepts and the callee accepts what the written call passes; with partial=True the '
               'callee\'s parameters are optional), and the converse when no defaulted positional, hide flag or partial is '
               'involved; a ValueError from retrieval is accepted only when Exec is unsatisfiable. Witnesses are replayed by '
               'really calling the decorated function / bound method.')
OUTSIDE = 'def-lists larger than the bound; more than one forwarding call per wrapper; hide_* flags other than for a foreign star'
ASSUMPTIONS = ['hide_args / hide_kwargs are declared exactly when the written call passes a foreign star; soundness is then required '
               'for some contents of that star (finite expansion)',
               'declarations that contradict themselves (hide_args together with a named positional parameter, hide_kwargs together '
               'with a named keyword parameter) are outside the claim',
               'an unbound forwards_to_method / forwards_to_super wrapper (read from the class) may report its plain signature: '
               'the forger needs the instance']


def h_identity(ctx, cfg):
    specs = U.gen_sigs(2, cfg['K'], cfg.get('total'), star_variants=cfg.get('stars', False))
    names = draw_names(name_pool(specs[1], po=False), cfg.get('names', 1))
    fl = draw_forwards_flags(cfg.get('flagset', 'all'))
    npos = sum(1 for k in specs[1].kinds if k < 2)
    n = sym.pick(npos + 3, 'n')
    with sym.notrace():
        ctx.case('forwards %s n=%d names=%s %s' % (render_specs(specs), n, ','.join(names) or '-', render_flags(fl)),
                 nontrivial=False)
        so, si = [U.sig_of(s, 'f%d' % j)[0] for j, s in enumerate(specs)]
    A = B = ea = eb = None
    try:
        A = S.forwards(so, si, n, *names, **fl)
    except ValueError as e:
        ea = e
    try:
        inner = si
        if fl['partial']:
            inner = si.replace(parameters=[p if p.kind in (p.VAR_POSITIONAL, p.VAR_KEYWORD) else p.replace(default=None)
                                           for p in si.parameters.values()])
        B = S.embed(so, S.mask(inner, n, *names, hide_args=fl['hide_args'], hide_kwargs=fl['hide_kwargs']),
                    use_varargs=fl['use_varargs'], use_varkwargs=fl['use_varkwargs'])
    except ValueError as e:
        eb = e
    info = lambda: dict(forwards=str(A) if A is not None else repr(ea), composed=str(B) if B is not None else repr(eb))
    if ctx.require('same-outcome', (A is None) == (B is None), info) and A is not None:
        ctx.nontrivial = True
        ctx.require('same-parameters', params_key(A, True) == params_key(B, True), info)
        ctx.require('same-provenance', sources_key(A) == sources_key(B),
                    lambda: dict(info(), got=sources_key(A), want=sources_key(B)))


def h_declared(ctx, cfg):
    p = progs.draw(cfg)
    method_route = p.route != 'declared-function'
    unbound = sym.flip('unbound') if method_route else False
    with sym.notrace():
        ctx.case(p.text + ('\n# retrieved unbound' if unbound else ''), nontrivial=False)
        try:
            progs.build(p)
            decorated = True
        except ValueError as e:
            decorated = False
            dec_err = e
        for ft in p.features:
            ctx.count('prod:' + ft)
        o = p.outer; cal = p.callee
        if p.partial:
            cal = cal.all_optional()
        qn = all_names([o, cal])
        for nm in tuple(p.decl['names']) + (progs.FOREIGN_KW,):
            if nm not in qn:
                qn += (nm,)
        pristine = all(v in ('pristine', 'absent') for v in p.star_forms.values())
        if pristine:
            exec_alts = [Exec(o, [(p.sites[0][0], cal)], real=(None if unbound or not decorated else o.real))]
        else:
            pp = p
            saved = p.callee
            p.callee = cal
            exec_alts = [Exec(o, [(s, cal)]) for s in _hidden_sites(p)]
            p.callee = saved
        ex = Or(*exec_alts) if len(exec_alts) > 1 else exec_alts[0]
    shared = set(p.outer.named) & set(p.callee.named)
    if not decorated:
        ctx.count('decoration-raised')
        if shared:      # embed may refuse inputs that declare the same name (C02's raise clause)
            ctx.count('raised-shared-name')
            return
        ctx.refute('ValueError-only-if-never-callable', qn, ex, lambda: dict(exc=repr(dec_err)))
        return
    f = p.objs['f']
    if unbound:
        f = getattr(p.objs['ns']['K'], 'wrapper')
    try:
        with sym.concrete():
            R = sigtools.signature(f)
    except ValueError as e:
        ctx.count('retrieval-ValueError')
        if p.decl['hide_args'] and any(nm in [x for x, _ in p.callee.po + p.callee.pok] for nm in p.decl['names']):
            # hide_args declares that the foreign star fills every positional parameter; naming one of them as
            # well contradicts the declaration itself (documented contract of the flag): nothing is demanded
            ctx.count('hide_args-with-positional-name')
            return
        if shared:      # embed may refuse inputs that declare the same name (C02's raise clause)
            ctx.count('raised-shared-name')
            return
        ctx.refute('ValueError-only-if-never-callable', qn, ex, lambda: dict(exc=repr(e), features=p.label(), unbound=unbound))
        return
    except Exception as e:
        ctx.require('retrieval-raises-only-ValueError', False,
                    lambda: dict(exc=repr(e), features=p.label(), unbound=unbound, emulate=p.emulate))
        return
    ctx.count('returned')
    info = lambda: dict(reported=str(R), features=p.label(), unbound=unbound)
    if p.emulate:
        try:
            with sym.concrete():
                R2 = inspect.signature(f)
            ctx.require('inspect-sees-the-same-signature', params_key(R2) == params_key(R),
                        lambda: dict(info(), inspect=str(R2)))
        except Exception as e:
            ctx.require('inspect-sees-the-same-signature', False, lambda: dict(info(), exc=repr(e)))
    with sym.concrete():
        Ra = sigtools.signature(f, auto=False)
    ctx.require('declaration-independent-of-auto', params_key(Ra) == params_key(R), lambda: dict(info(), auto_false=str(Ra)))
    if unbound:
        B = S.signature(f)
        if params_key(R) == params_key(B):
            ctx.count('unbound-reports-plain')
            return
        ctx.require('unbound-is-plain-or-declared', False, lambda: dict(info(), plain=str(B)))
        return
    ctx.nontrivial = True
    with sym.notrace():
        rs = shape_of(R)
        for nm in rs.named:
            if nm not in qn:
                qn += (nm,)
        bound = tuple(o.named) + tuple(cal.named) + tuple(p.decl['names'])
        nc = NonColl(rs.kwable, bound)
    if ctx.impossible(qn, ex):
        ctx.count('never-callable-program')
        return
    if p.decl['hide_kwargs'] and any(nm in p.callee.kwable for nm in p.decl['names']):
        # hide_kwargs declares that the foreign ** fills every keyword-passable parameter; naming one of them as
        # well contradicts the declaration (sigtools ignores the names then): outside the claim, like hide_args above
        ctx.count('hide_kwargs-with-keyword-name')
        return
    ctx.refute('sound', qn, And(Acc(rs), nc, Not(ex)), info)
    exact_applies = pristine and not p.partial and not any(d for _, d in o.po + o.pok)
    if exact_applies:
        ctx.refute('exact', qn, And(ex, nc, Not(Acc(rs))), info)


DECL_QUICK = dict(groups=['declared'], Ko=0, Kc=1, kmax=1, nmax=1, partial=False)


def plan(tier):
    if tier == 'quick':
        return [
            dict(name='identity-total2', fn='h_identity', depth=9, budget_s=300, cfg=dict(K=1, total=1, names=1, flagset='lite'),
                 bounds='forwards vs embed(mask): pairs with <=1 named in total, num_args 0..len+2, <=1 name (foreign included), 20 flag combinations',
                 min_nontrivial=500, must_reach=['same-parameters', 'same-provenance']),
            dict(name='declared-Ko0-Kc1', fn='h_declared', depth=10, budget_s=420, cfg=DECL_QUICK,
                 bounds='4 decorators x bare outer (stars only) x callee <=1 named x <=1 fixed positional x <=1 keyword name x pristine/absent/foreign stars x emulate x bound/unbound (partial=True: identity harness and thorough tier)',
                 min_nontrivial=500, must_reach=['sound', 'exact', 'inspect-sees-the-same-signature']),
            dict(name='declared-function-Ko1', fn='h_declared', depth=9, budget_s=300,
                 cfg=dict(DECL_QUICK, Ko=1, Kc=1, kmax=0, nmax=0, route_list=['declared-function']),
                 bounds='forwards_to_function x outer with <=1 named parameter of its own (any kind) x callee <=1 named x pristine/absent/foreign stars x emulate',
                 min_nontrivial=500, must_reach=['sound', 'exact']),
        ]
    return [
        dict(name='identity-total3', fn='h_identity', depth=10, budget_s=3000, cfg=dict(K=2, total=3, names=1, stars=True),
             bounds='forwards vs embed(mask): pairs with <=3 named in total, star-name variants, <=1 name, 32 flag combinations (time-limited)',
             min_nontrivial=500),
        dict(name='declared-Ko1-Kc2', fn='h_declared', depth=12, budget_s=3000, cfg=dict(DECL_QUICK, Ko=1, Kc=2, kmax=2, nmax=2, partial=True),
             bounds='4 decorators x outer <=1 named x callee <=2 named x <=2 fixed positionals x <=2 keyword names (time-limited)',
             min_nontrivial=500),
    ]
