"""C08 — parameter provenance is complete, truthful and depth-ordered."""
import functools
import inspect

import sigtools
from sigtools import _signatures as S, modifiers

from symx import sym, universe as U, progs
from harness.common import *
from harness.algebra import *
from harness import c06 as _c06, c07 as _c07

PROPERTY = 'C08'
LEVEL = 'model_checking'
RULE = ('algebra harness: each CrossHair path decodes one operation instance (merge / embed / mask / forwards / partial / '
        'modifiers) over U(K) with inputs materialised as real functions — inner star parameters named like the outer\'s '
        'included — and checks result.sources; discovery harness: every program of the forwarding grammar (C05/C06); corpus '
        'harness: every callable of the C07 corpus (finite, enumerated). distinct = distinct rendered instance / program / '
        'callable; non-trivial = a signature was returned and its provenance checked')
EXPLANATION = ('Well-formedness predicate on every returned signature: keys of sources == parameter names + "+depths"; every list '
               'non-empty and duplicate-free; every element has a depth and itself declares a parameter of that name (asked of '
               'inspect.signature); for merge/embed/forwards on role-consistent inputs the list is exactly the set of inputs '
               'declaring the name; depths: 0 for the outermost callable, position in the embed chain for inner ones, minimum '
               'on re-reach; modifiers wrapper objects replace the wrapped function in both maps.')
OUTSIDE = 'signatures / programs larger than the bounds of the host harnesses'
ASSUMPTIONS = ['"declares a parameter of that name" is decided with inspect.signature of the source element']


def _declares(el, name):
    if isinstance(el, functools.partial) and name in (el.keywords or {}):
        return True             # a keyword the partial object binds (possibly absorbed by **kwargs of the function)
    try:
        sig = inspect.signature(el)
    except (TypeError, ValueError):
        return None
    return name in sig.parameters


def wf(R, strict_declares=True):
    """-> list of problems (empty when well-formed)"""
    out = []
    src = getattr(R, 'sources', None)
    if not isinstance(src, dict):
        return ['no sources map']
    depths = src.get('+depths')
    if not isinstance(depths, dict):
        out.append("no '+depths' map")
        depths = {}
    names = set(R.parameters)
    keys = set(k for k in src if k != '+depths')
    if keys - names:
        out.append('entries for parameters not in the signature: %s' % sorted(keys - names))
    if names - keys:
        out.append('parameters without an entry: %s' % sorted(names - keys))
    for k in sorted(keys & names):
        lst = src[k]
        if not lst:
            out.append('empty list for %s' % k)
        for i, el in enumerate(lst):
            if any(el is o or el == o for o in lst[:i]):
                out.append('duplicate source for %s' % k)
            if not any(el is d or el == d for d in depths):
                out.append('source of %s has no depth' % k)
            if strict_declares:
                dec = _declares(el, k)
                if dec is False:
                    out.append('source %s does not declare %s' % (getattr(el, '__name__', type(el).__name__), k))
    return out


OPS = ('merge', 'embed', 'mask', 'forwards', 'partial', 'modifiers', 'reached-twice')


def h_algebra(ctx, cfg):
    ops = cfg.get('ops', OPS)
    op = ops[sym.pick(len(ops), 'op')] if len(ops) > 1 else ops[0]
    arity = 1
    if op == 'reached-twice':
        # merge(embed(bare, embed(bare, leaf)), embed(bare, leaf)) in either order: leaf is reached at depth 2 and 1
        spec = U.gen_sigs(1, cfg['K'])[0]
        left_deep = sym.flip('left-deep')
        with sym.notrace():
            ctx.case('reached-twice %r %s' % (spec, 'deep-first' if left_deep else 'shallow-first'), nontrivial=True)
            leaf = U.real_function(spec, 'leaf')
            relay = U.make_function('*args, **kwargs', name='relay', cache_key=('c08relay',))
            top1 = U.make_function('*args, **kwargs', name='top1', cache_key=('c08top1',))
            top2 = U.make_function('*args, **kwargs', name='top2', cache_key=('c08top2',))
        try:
            deep = S.embed(S.signature(top1), S.signature(relay), S.signature(leaf))
            shallow = S.embed(S.signature(top2), S.signature(leaf))
            R = S.merge(deep, shallow) if left_deep else S.merge(shallow, deep)
        except ValueError:
            ctx.count('raised')
            return
        depths = R.sources.get('+depths', {})
        ctx.require('minimum-depth-kept-when-reached-twice', depths.get(leaf) == 1 and depths.get(relay) == 1 and
                    depths.get(top1) == 0 and depths.get(top2) == 0,
                    lambda: dict(depths=dict((getattr(k, '__name__', repr(k)), v) for k, v in depths.items())))
        return
    if op == 'merge':
        arity = 2 + (sym.flip('triple') if cfg.get('triples') else 0)
    elif op in ('embed', 'forwards'):
        arity = 2 + (sym.flip('triple') if (cfg.get('triples') and op == 'embed') else 0)
    specs = U.gen_sigs(arity, cfg['K'], cfg.get('total') if arity > 1 else None, star_variants=(op in ('embed', 'forwards')))
    extra = {}
    if op == 'embed':
        extra = draw_flags(('use_varargs', 'use_varkwargs'))
    elif op == 'mask':
        extra = dict(n=sym.pick(sum(1 for k in specs[0].kinds if k < 2) + 2, 'n'),
                     names=draw_names(name_pool(specs[0], foreign=True), 1))
    elif op == 'forwards':
        extra = dict(n=sym.pick(sum(1 for k in specs[1].kinds if k < 2) + 2, 'n'),
                     names=draw_names(name_pool(specs[1], foreign=False), 1))
    elif op == 'partial':
        extra = dict(cnt=sym.pick(sum(1 for k in specs[0].kinds if k < 2) + 1, 'cnt'),
                     bound=draw_names(name_pool(specs[0]), 1))
    elif op == 'modifiers':
        poks = [nm for nm, k in zip(specs[0].names, specs[0].kinds) if k == 1]
        extra = dict(kwo=tuple(nm for nm in poks if sym.flip('kwo')))
    with sym.notrace():
        ctx.case('%s %s %s' % (op, render_specs(specs), ' '.join('%s=%s' % kv for kv in sorted(extra.items()))), nontrivial=False)
        fns = [U.real_function(s, 'f%d' % j) for j, s in enumerate(specs)]
        shapes = [s.shape() for s in specs]
        cons = role_consistent(shapes)
    sigs = [S.signature(f) for f in fns]
    expect_depth = {}
    try:
        if op == 'merge':
            R = S.merge(*sigs)
            expect_depth = dict((id(f), 0) for f in fns)
        elif op == 'embed':
            R = S.embed(*sigs, **extra)
            expect_depth = dict((id(f), j) for j, f in enumerate(fns))
        elif op == 'mask':
            R = S.mask(sigs[0], extra['n'], *extra['names'])
            expect_depth = {id(fns[0]): 0}
        elif op == 'forwards':
            R = S.forwards(sigs[0], sigs[1], extra['n'], *extra['names'])
            expect_depth = {id(fns[0]): 0, id(fns[1]): 1}
        elif op == 'partial':
            pobj = functools.partial(fns[0], *([0] * extra['cnt']), **dict((nm, 1) for nm in extra['bound']))
            R = S.signature(pobj)
            expect_depth = {id(pobj): 0, id(fns[0]): 1}
        else:
            obj = modifiers.kwoargs(*extra['kwo'])(fns[0]) if extra['kwo'] else fns[0]
            R = sigtools.signature(obj)
            expect_depth = {id(obj): 0}
    except ValueError:
        ctx.count('raised')
        return
    ctx.nontrivial = True
    info = lambda: dict(result=str(R), sources=sources_key(R))
    problems = wf(R)
    ctx.require('well-formed[%s]' % op, not problems, lambda: dict(info(), problems=problems))
    depths = R.sources.get('+depths', {})
    bad = [(getattr(f, '__name__', repr(f)), d, expect_depth.get(id(f))) for f, d in depths.items()
           if expect_depth.get(id(f)) != d]
    ctx.require('depths[%s]' % op, not bad and len(depths) <= len(expect_depth), lambda: dict(info(), wrong=bad))
    if op in ('merge', 'embed') and cons:
        for p in R.parameters.values():
            if p.kind in (p.VAR_POSITIONAL, p.VAR_KEYWORD):
                continue
            want = [f for f, s in zip(fns, specs) if p.name in s.names]
            if op == 'embed' and len(want) > 1:
                continue        # a shared name survives embed only when the inner optional parameter was dropped
            got = R.sources.get(p.name, [])
            ctx.require('exactly-the-declaring-inputs[%s]' % op,
                        len(got) == len(want) and all(any(g is w for g in got) for w in want),
                        lambda: dict(info(), name=p.name))
    if op == 'merge' and len(fns) == 2:
        # a name that is positional-or-keyword in one input and keyword-only in the other is the same logical
        # parameter (merge reports it keyword-only): both inputs are its sources
        # -- unless the positional-or-keyword one is matched by position with a positional parameter of the other
        # input (then it is that parameter it is merged with, and the other's keyword-only one meets **kwargs)
        kinds = [dict(zip(s.names, s.kinds)) for s in specs]
        npos = [sum(1 for k in s.kinds if k < 2) for s in specs]
        for p in R.parameters.values():
            ks = sorted(k.get(p.name, -1) for k in kinds)
            j = 0 if kinds[0].get(p.name) == 1 else 1
            if p.kind == p.KEYWORD_ONLY and ks == [1, 2] and (
                    [nm for nm, k in zip(specs[j].names, specs[j].kinds) if k < 2].index(p.name) >= npos[1 - j]):
                got = R.sources.get(p.name, [])
                ctx.require('pok-and-kwo-contributors-both-listed[merge]',
                            len(got) == 2 and all(any(g is f for g in got) for f in fns),
                            lambda: dict(info(), name=p.name))
    if op == 'modifiers' and extra['kwo']:
        inside = [k for k, v in R.sources.items() if k != '+depths' and any(x is fns[0] for x in v)]
        ctx.require('wrapper-object-replaces-wrapped-function', not inside and not any(d is fns[0] for d in depths),
                    lambda: dict(info(), still_function=inside))


def h_discovery(ctx, cfg):
    p = progs.draw(cfg)
    with sym.notrace():
        ctx.case(p.text, nontrivial=False)
        progs.build(p)
    f = p.objs['f']
    try:
        with sym.concrete():
            R = sigtools.signature(f)
    except Exception as e:
        ctx.count('retrieval-raised')
        return
    ctx.nontrivial = True
    problems = wf(R)
    info = lambda: dict(result=str(R), sources=sources_key(R), features=p.label())
    ctx.require('well-formed[discovery]', not problems,
                lambda: dict(info(), problems=problems, two_calls_to_the_same_callee=(p.n_sites == 2)))
    depths = R.sources.get('+depths', {})
    outer_objs = [f, p.objs.get('wrapper')]
    d0 = [d for o, d in depths.items() if any(o is x or o == x for x in outer_objs)]
    ctx.require('outermost-has-depth-0', bool(d0) and min(d0) == 0 and
                all(d >= 0 for d in depths.values()), info)
    callee = p.objs.get('callee')
    for o, d in depths.items():
        if callee is not None and (o is callee or o == callee):
            ctx.require('callee-deeper-than-wrapper', d >= 1, info)


def h_corpus(ctx, cfg):
    with sym.notrace():
        items = _c07.corpus(_c07.THOROUGH_MODULES if cfg.get('thorough') else _c07.QUICK_MODULES)
    idx = sym.pick(len(items), 'idx')
    with sym.notrace():
        label, obj = items[idx]
        ctx.case('corpus ' + label, nontrivial=False)
        try:
            R = sigtools.signature(obj)
        except Exception:
            ctx.count('no-signature')
            return
        problems = wf(R)
    ctx.nontrivial = True
    ctx.require('well-formed[corpus]', not problems,
                lambda: dict(object=label, result=str(R), problems=problems, sources=sources_key(R)))


def plan(tier):
    if tier == 'quick':
        return [
            dict(name='algebra-total2', fn='h_algebra', depth=9, budget_s=300, cfg=dict(K=2, total=2),
                 bounds='merge / embed (4 flag combinations, inner stars named like the outer\'s or not) / forwards on pairs with <=2 named in total; mask, partial, modifiers on <=2 named',
                 min_nontrivial=500, must_reach=['well-formed', 'depths', 'exactly-the-declaring-inputs',
                                                 'wrapper-object-replaces-wrapped-function']),
            dict(name='merge-triples', fn='h_algebra', depth=9, budget_s=180, cfg=dict(K=1, total=2, triples=True, ops=['merge']),
                 bounds='merge of 2 or 3 signatures with <=1 named parameter each, <=2 in total (provenance through an n-ary merge)',
                 min_nontrivial=500, must_reach=['exactly-the-declaring-inputs']),
            dict(name='discovery-grammar', fn='h_discovery', depth=10, budget_s=900, cfg=_c06.QUICK, bounds=_c06.QUICK_BOUNDS,
                 min_nontrivial=500, must_reach=['well-formed', 'outermost-has-depth-0', 'callee-deeper-than-wrapper']),
            dict(name='corpus-quick', fn='h_corpus', depth=8, budget_s=200, cfg=dict(thorough=False),
                 bounds='every callable reachable from 21 modules (finite corpus)', min_nontrivial=200),
        ]
    return [
        dict(name='algebra-total3-triples', fn='h_algebra', depth=11, budget_s=3000, cfg=dict(K=2, total=3, triples=True),
             bounds='as quick with <=3 named in total and merge/embed triples (time-limited)', min_nontrivial=500),
        dict(name='discovery-grammar', fn='h_discovery', depth=12, budget_s=2400, cfg=_c06.THOROUGH,
             bounds='the thorough forwarding grammar of C05/C06 (time-limited)', min_nontrivial=500),
        dict(name='corpus-thorough', fn='h_corpus', depth=10, budget_s=1500, cfg=dict(thorough=True),
             bounds='every callable reachable from ~120 importable modules', min_nontrivial=1000),
    ]
