"""C12 — modifiers.kwoargs / posoargs / autokwoargs: advertised signature == call behaviour."""
import inspect

import sigtools
from sigtools import modifiers

from symx import sym, universe as U
from harness.common import *
from harness.algebra import *

PROPERTY = 'C12'
LEVEL = 'model_checking'
RULE = ('each CrossHair path decodes a function from U(K) (natively positional-only / keyword-only parameters '
        'included, distinct constant default values), a decorator form (kwoargs(*names), posoargs(*names), both stacked, '
        'kwoargs(start=), posoargs(end=), autokwoargs(exceptions=)) with its selection and — in the call '
        'harnesses — a call shape (n positionals 0..len+2, keyword subset incl. a foreign one) with SYMBOLIC '
        'argument values; distinct = distinct rendered instance; non-trivial = decoration admissible')
EXPLANATION = ('The expected rewrite E of the signature is computed from the selection alone. Obligations: '
               'inadmissible <=> ValueError at decoration; advertised == E (kinds, order within groups, defaults, '
               'annotations) through sigtools.signature and inspect.signature; the decorated callable, called '
               'directly and as a bound method, raises TypeError exactly when a native def with signature E does, '
               'and otherwise returns the same name->value mapping — value equality is decided by z3 over the '
               'symbolic arguments (defaults are distinct constants: sigtools formats whole signatures into its error messages, which CrossHair cannot do on symbolic values).')
OUTSIDE = ('functions with more named parameters than the bound; calls passing a positional-only name by keyword '
           'alongside **kwargs (excluded by the property)')
ASSUMPTIONS = ['keyword-only order is compared within the native group and within the converted group (DESIGN.md C12)']

FORMS = ('kwoargs', 'posoargs', 'both', 'start', 'end', 'auto', 'names+start', 'names+end')


def _draw_subset(names, tag):
    return tuple(nm for nm in names if sym.flip(tag))


def _extras(spec):
    """Inadmissible extras: a star name or an unknown name, as keyword-only or positional-only request."""
    ex = [None]
    for nm in ([spec.stars[0]] if spec.va else []) + ([spec.stars[1]] if spec.vk else []) + [FOREIGN_NAME]:
        ex.append(('kwo', nm)); ex.append(('po', nm))
    return ex


def _draw_decoration(spec, forms=FORMS):
    """-> (form, args dict).  Selections range over every parameter name; at most one inadmissible extra
    (star name / unknown name) is added."""
    form = forms[sym.pick(len(forms), 'form')] if len(forms) > 1 else forms[0]
    names = list(spec.names)
    if form in ('kwoargs', 'posoargs', 'both'):
        kwo = []; po = []
        for nm in names:
            if form == 'both':
                c = sym.pick(4, 'sel')         # 0 none, 1 kwo, 2 po, 3 both
            elif form == 'kwoargs':
                c = 1 if sym.flip('sel') else 0
            else:
                c = 2 if sym.flip('sel') else 0
            if c in (1, 3):
                kwo.append(nm)
            if c in (2, 3):
                po.append(nm)
        ex = _extras(spec)
        e = ex[sym.pick(len(ex), 'extra')]
        if e is not None and (form == 'both' or (form == 'kwoargs') == (e[0] == 'kwo')):
            (kwo if e[0] == 'kwo' else po).append(e[1])
        a = dict(kwo=tuple(kwo), po=tuple(po))
        if form == 'both':
            a['order'] = sym.flip('ord')
        return form, a
    cand = names + ([spec.stars[0]] if spec.va else []) + ([spec.stars[1]] if spec.vk else []) + [FOREIGN_NAME]
    if form in ('start', 'end'):
        return form, dict(name=cand[sym.pick(len(cand), 'nm')])
    if form in ('names+start', 'names+end'):    # explicit names together with start= / end=
        return form, dict(name=cand[sym.pick(len(cand), 'nm')], names=_draw_subset(names + [FOREIGN_NAME], 'xn'))
    return form, dict(exceptions=_draw_subset(cand, 'ex'), direct=sym.flip('direct'))


def _expected(spec, form, a):
    """Independent computation: -> (None if inadmissible else (po, pok, va, kwo_native, kwo_converted, vk)).
    The stacked form is admissible when the inner decorator alone is admissible and the combination is."""
    if form == 'both':
        inner = dict(kwo=a['kwo'], po=()) if a['order'] else dict(kwo=(), po=a['po'])
        if _expected1(spec, 'kwoargs', inner) is None:
            return None
    return _expected1(spec, form, a)


def _expected1(spec, form, a):
    kinds = dict(zip(spec.names, spec.kinds))
    hasdef = dict(zip(spec.names, spec.defaults))
    poks = [nm for nm in spec.names if kinds[nm] == 1]
    if form in ('start', 'names+start'):
        if a['name'] not in poks:
            return None
        i = poks.index(a['name'])
        kwo = set(poks[i:]) | set(a.get('names', ())); po = set()
        if any(kinds.get(nm) not in (1, 2) for nm in a.get('names', ())):
            return None
    elif form in ('end', 'names+end'):
        if a['name'] not in poks:
            return None
        i = poks.index(a['name'])
        po = set(poks[:i + 1]) | set(a.get('names', ())); kwo = set()
        if any(kinds.get(nm) not in (0, 1) for nm in a.get('names', ())):
            return None
    elif form == 'auto':
        defaulted = [nm for nm in poks if hasdef[nm]]
        if not set(a['exceptions']) <= set(defaulted):
            return None
        kwo = set(defaulted) - set(a['exceptions']); po = set()
    else:
        kwo = set(a['kwo']); po = set(a['po'])
        if kwo & po:
            return None
        for nm in kwo:
            if kinds.get(nm) not in (1, 2):
                return None
        for nm in po:
            if kinds.get(nm) not in (0, 1):
                return None
    # a selected positional-only parameter may not follow a parameter that stays positional-or-keyword
    seen_regular = False
    for nm in poks:
        if nm in po:
            if seen_regular:
                return None
        elif nm not in kwo:
            seen_regular = True
    e_po = [nm for nm in spec.names if kinds[nm] == 0 or (kinds[nm] == 1 and nm in po)]
    e_pok = [nm for nm in poks if nm not in po and nm not in kwo]
    e_kn = [nm for nm in spec.names if kinds[nm] == 2]
    e_kc = [nm for nm in poks if nm in kwo]
    return e_po, e_pok, spec.va, e_kn, e_kc, spec.vk


def _decorate(fn, form, a):
    if form == 'kwoargs':
        return modifiers.kwoargs(*a['kwo'])(fn)
    if form == 'posoargs':
        return modifiers.posoargs(*a['po'])(fn)
    if form == 'both':
        if a['order']:
            return modifiers.posoargs(*a['po'])(modifiers.kwoargs(*a['kwo'])(fn))
        return modifiers.kwoargs(*a['kwo'])(modifiers.posoargs(*a['po'])(fn))
    if form == 'start':
        return modifiers.kwoargs(start=a['name'])(fn)
    if form == 'end':
        return modifiers.posoargs(end=a['name'])(fn)
    if form == 'names+start':
        return modifiers.kwoargs(*a['names'], start=a['name'])(fn)
    if form == 'names+end':
        return modifiers.posoargs(*a['names'], end=a['name'])(fn)
    if a['direct'] and not a['exceptions']:
        return modifiers.autokwoargs(fn)
    return modifiers.autokwoargs(exceptions=a['exceptions'])(fn)


def _render_dec(form, a):
    return '%s(%s)' % (form, ', '.join('%s=%s' % (k, ','.join(v) if isinstance(v, tuple) else v)
                                       for k, v in sorted(a.items())))


def _make(spec, dvals, annotate=False):
    """Real function with symbolic defaults (looked up in its globals at def time); never cached."""
    values = dict((nm, 'D_' + nm) for nm, d in zip(spec.names, spec.defaults) if d)
    globs = dict(('D_' + nm, dvals[nm]) for nm in values)
    ann = dict((nm, repr('ann_' + nm)) for nm in spec.names) if annotate else None
    return U.make_function(spec.deflist(values=values, annotations=ann), name='f', globs=globs)


def _structure(sig):
    po = []; pok = []; kwo = []; va = vk = None
    for p in sig.parameters.values():
        if p.kind == p.POSITIONAL_ONLY: po.append(p.name)
        elif p.kind == p.POSITIONAL_OR_KEYWORD: pok.append(p.name)
        elif p.kind == p.KEYWORD_ONLY: kwo.append(p.name)
        elif p.kind == p.VAR_POSITIONAL: va = p.name
        else: vk = p.name
    return po, pok, va, kwo, vk


def _check_signature(ctx, spec, exp, dec, dvals, label, sig, annotated):
    e_po, e_pok, e_va, e_kn, e_kc, e_vk = exp
    po, pok, va, kwo, vk = _structure(sig)
    info = lambda: dict(advertised=str(sig), expected=repr(exp))
    ok = (po == e_po and pok == e_pok and (va is not None) == e_va and (vk is not None) == e_vk and
          sorted(kwo) == sorted(e_kn + e_kc) and [n for n in kwo if n in e_kn] == e_kn and
          [n for n in kwo if n in e_kc] == e_kc)
    if not ctx.require('advertised-structure[%s]' % label, ok, info):
        return False
    hasdef = dict(zip(spec.names, spec.defaults))
    for nm in spec.names:
        p = sig.parameters[nm]
        if hasdef[nm]:
            ctx.require('default-preserved[%s]' % label, p.default is not p.empty and p.default == dvals[nm],
                        lambda: dict(info(), name=nm))
        else:
            ctx.require('default-preserved[%s]' % label, p.default is p.empty, lambda: dict(info(), name=nm))
        if annotated:
            ctx.require('annotation-preserved[%s]' % label, p.annotation == 'ann_' + nm, lambda: dict(info(), name=nm))
    return True


def h_signature(ctx, cfg):
    spec = U.gen_sigs(1, cfg['K'])[0]
    form, a = _draw_decoration(spec)
    annotated = sym.flip('ann')
    dvals = dict((nm, 100 + i) for i, (nm, d) in enumerate(zip(spec.names, spec.defaults)) if d)
    with sym.notrace():
        exp = _expected(spec, form, a)
        ctx.case('%s on %r%s' % (_render_dec(form, a), spec, ' annotated' if annotated else ''),
                 nontrivial=exp is not None)
        fn = _make(spec, dvals, annotated)
    try:
        dec = _decorate(fn, form, a)
    except ValueError as e:
        ctx.count('decoration-ValueError')
        ctx.require('ValueError-only-if-inadmissible', exp is None, lambda: dict(exc=repr(e)))
        return
    if not ctx.require('inadmissible-raises-ValueError', exp is not None, lambda: dict(got=repr(dec))):
        return
    ctx.count('decorated')
    _check_signature(ctx, spec, exp, dec, dvals, 'sigtools', sigtools.signature(dec), annotated)
    _check_signature(ctx, spec, exp, dec, dvals, 'inspect', inspect.signature(dec), annotated)


def _native(spec, exp, dvals):
    """Native def with the expected signature E (same symbolic defaults), returning locals()."""
    e_po, e_pok, e_va, e_kn, e_kc, e_vk = exp
    hasdef = dict(zip(spec.names, spec.defaults))
    item = lambda nm: nm + ('=D_' + nm if hasdef[nm] else '')
    parts = [item(nm) for nm in e_po]
    if e_po:
        parts.append('/')
    parts += [item(nm) for nm in e_pok]
    if e_va:
        parts.append('*' + spec.stars[0])
    elif e_kn or e_kc:
        parts.append('*')
    parts += [item(nm) for nm in e_kn + e_kc]
    if e_vk:
        parts.append('**' + spec.stars[1])
    # positional defaults must stay ordered for the def to compile: E is built by removing parameters from a
    # valid list or moving a prefix, which preserves that
    globs = dict(('D_' + nm, dvals[nm]) for nm in dvals)
    return U.make_function(', '.join(parts), name='native', globs=globs)


def _draw_call(names, npos_max, tag='call'):
    n = sym.pick(npos_max + 1, tag + 'n')
    kws = tuple(nm for nm in names if sym.flip(tag + 'kw'))
    return n, kws


def _call(fn, args, kwargs):
    try:
        return fn(*args, **kwargs), None
    except TypeError as e:
        return None, e


def _compare_calls(ctx, label, got, gerr, want, werr, info):
    if not ctx.require('accepts-iff-signature-accepts[%s]' % label, (gerr is None) == (werr is None),
                       lambda: dict(info(), decorated=repr(gerr) if gerr else 'returned',
                                    native=repr(werr) if werr else 'returned')):
        return
    if gerr is None:
        same = set(got) == set(want) and all(got[k] == want[k] for k in want)
        ctx.require('routes-values-like-signature[%s]' % label, same,
                    lambda: dict(info(), decorated=got, native=want))


def h_call(ctx, cfg):
    if cfg.get('pok_only'):
        spec = _gen_pok_only(cfg['K'])
    else:
        spec = U.gen_sigs(1, cfg['K'])[0]
    forms = tuple(cfg.get('forms', FORMS))
    form, a = _draw_decoration(spec, forms)
    with sym.notrace():
        exp = _expected(spec, form, a)
    if exp is None:
        with sym.notrace():
            ctx.case('inadmissible %s on %r' % (_render_dec(form, a), spec), nontrivial=False)
        return
    bound = {'direct': False, 'bound': True}.get(cfg.get('bound', 'both'))
    if bound is None:
        bound = sym.flip('bound')
    npos = sum(1 for k in spec.kinds if k < 2)
    n, kws = _draw_call(list(spec.names) + [FOREIGN_NAME], npos + 2)
    dvals = dict((nm, 100 + i) for i, (nm, d) in enumerate(zip(spec.names, spec.defaults)) if d)
    avals = [sym.sym_val('av') for _ in range(n)]
    kvals = dict((nm, sym.sym_val('kv')) for nm in kws)
    with sym.notrace():
        ctx.case('%s on %r %s call n=%d kw={%s}' % (_render_dec(form, a), spec, 'bound' if bound else 'direct',
                                                   n, ','.join(kws)), nontrivial=True)
        e_po, e_pok = exp[0], exp[1]
        if spec.vk and any(k in e_po for k in kws):
            ctx.count('excluded-po-name-by-keyword-with-varkwargs')
            return
        fn = _make(spec, dvals)
        native = _native(spec, exp, dvals)
    dec = _decorate(fn, form, a)
    info = lambda: dict(advertised=str(sigtools.signature(dec)))
    if not bound:
        got, gerr = _call(dec, avals, kvals)
        want, werr = _call(native, avals, kvals)
        _compare_calls(ctx, 'direct', got, gerr, want, werr, info)
        return
    # as a method: the first positional parameter receives the instance
    first = (e_po + e_pok)[:1]
    if not first or first[0] != spec.names[0]:
        ctx.count('not-bindable')
        return
    cls = type('C', (object,), {'m': dec, 'n': native})
    inst = cls()
    try:
        inst.m
    except ValueError as e:
        ctx.require('bound-access', False, lambda: dict(
            exc=repr(e), first_parameter_selected_positional_only=(
                first[0] in a.get('po', ()) or first[0] in a.get('names', ()) or (form in ('end', 'names+end') and a['name'] == first[0]))))
        return
    got, gerr = _call(inst.m, avals, kvals)
    want, werr = _call(inst.n, avals, kvals)
    _compare_calls(ctx, 'bound', got, gerr, want, werr, info)
    bs = sigtools.signature(inst.m)
    full = sigtools.signature(dec)
    ctx.require('binding-removes-first-parameter', list(bs.parameters) == list(full.parameters)[1:],
                lambda: dict(bound=str(bs), unbound=str(full)))


def _gen_pok_only(K):
    """Functions whose named parameters are all positional-or-keyword (exactly K of them)."""
    va = sym.flip('va'); vk = sym.flip('vk')
    first_default = sym.pick(K + 1, 'fd')
    defaults = [i >= first_default for i in range(K)]
    s = U.Spec([1] * K, defaults, va, vk)
    s.names = tuple(U.POOL[:K])
    return s


def plan(tier):
    if tier == 'quick':
        return [
            dict(name='signature-K2', fn='h_signature', depth=9, budget_s=600, cfg=dict(K=2),
                 bounds='functions with <=2 named parameters x 6 decorator forms x every selection over parameter names plus one star/unknown name; symbolic defaults; with/without annotations',
                 min_nontrivial=500, must_reach=['advertised-structure', 'ValueError-only-if-inadmissible',
                                                 'inadmissible-raises-ValueError', 'default-preserved']),
            dict(name='call-K2-direct', fn='h_call', depth=9, budget_s=300, cfg=dict(K=2, forms=['both'], bound='direct'),
                 bounds='functions with <=2 named parameters x every admissible kwoargs/posoargs assignment (both stacking orders) x direct calls with n<=len+2, every keyword subset incl. foreign; symbolic values',
                 min_nontrivial=500, must_reach=['accepts-iff-signature-accepts', 'routes-values-like-signature']),
            dict(name='call-2pok-bound', fn='h_call', depth=8, budget_s=600, cfg=dict(K=2, pok_only=True, bound='bound'),
                 bounds='methods with exactly 2 positional-or-keyword parameters x all 6 decorator forms x calls on the bound method; symbolic values',
                 min_nontrivial=200, must_reach=['binding-removes-first-parameter']),
        ]
    return [
        dict(name='signature-K3', fn='h_signature', depth=10, budget_s=2400, cfg=dict(K=3),
             bounds='functions with <=3 named parameters x 6 decorator forms x every selection', min_nontrivial=500),
        dict(name='call-K2', fn='h_call', depth=10, budget_s=1500, cfg=dict(K=2),
             bounds='functions with <=2 named parameters x all forms x calls with n<=len+2, every keyword subset incl. foreign; direct and bound; symbolic values',
             min_nontrivial=500),
        dict(name='call-3pok', fn='h_call', depth=10, budget_s=1500, cfg=dict(K=3, pok_only=True, forms=['both']),
             bounds='functions with exactly 3 positional-or-keyword parameters (all default/star variants) x every kwoargs/posoargs assignment x calls with n<=5, every keyword subset incl. foreign; direct and bound; symbolic values',
             min_nontrivial=500),
        dict(name='call-K3-direct', fn='h_call', depth=10, budget_s=2400, cfg=dict(K=3, forms=['both'], bound='direct'),
             bounds='functions with <=3 named parameters x every kwoargs/posoargs assignment x direct calls (time-limited; evidence says how far it got)',
             min_nontrivial=500),
    ]
