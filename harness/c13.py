"""C13 — wrappers.decorator / wrapper_decorator / Combination are call-transparent and advertise sound signatures."""
import functools
import inspect

import sigtools
from sigtools import wrappers, _signatures as S

from symx import sym, universe as U
from harness.common import *
from harness.algebra import *

PROPERTY = 'C13'
LEVEL = 'model_checking'
RULE = ('each CrossHair path decodes a decorated function from U(K), a stack of 1..D decorator layers (wrappers.decorator or '
        'wrappers.wrapper_decorator; own parameter: none / keyword-only with or without default / positional-or-keyword), a '
        'placement (function, method, staticmethod) and — in the call harness — a call shape with SYMBOLIC argument values; '
        'Combination: 1..3 functions from U(K). distinct = distinct rendered instance; non-trivial = obligations evaluated')
EXPLANATION = ('Signature soundness: z3 decides over all call shapes that Accept(R,c) & NonColl & ~ChainExec is unsat, for '
               'sigtools.signature and inspect.signature, ChainExec being acceptance by every layer\'s def-list of what the layer '
               'above forwards and finally by the decorated function; precondition: own-parameter names and the decorated '
               'function\'s names are pairwise distinct and some call executes. Transparency: the decorated object is really '
               'called on symbolic values and compared with the hand-written composition (z3 validity), including a body that '
               'raises a marker exception carrying a symbolic value.')
OUTSIDE = 'stacks deeper than the bound; decorated functions with more parameters than the bound; decorators that transform arguments'
ASSUMPTIONS = ['decorator bodies call func(*args, **kwargs) exactly once']

OWN = ('none', 'kwo-default', 'kwo-required', 'pok', 'passes-positional')
OWN_NAMES = ('oa', 'ob', 'oc')


class Marker(Exception):
    pass


def _deco_source(idx, own):
    nm = OWN_NAMES[idx]
    if own == 'passes-positional':      # the layer hands one positional argument of its own to the function
        return 'func, *args, **kwargs', "    return ('deco%d', None, func(('ctx', %d), *args, **kwargs))" % (idx, idx)
    if own == 'none':
        deflist = 'func, *args, **kwargs'
    elif own == 'kwo-default':
        deflist = 'func, *args, %s=7, **kwargs' % nm
    elif own == 'kwo-required':
        deflist = 'func, *args, %s, **kwargs' % nm
    else:
        deflist = 'func, %s, *args, **kwargs' % nm
    ret = "('deco%d', %s, func(*args, **kwargs))" % (idx, nm if own != 'none' else 'None')
    return deflist, '    return ' + ret


def _own_shape(idx, own):
    nm = OWN_NAMES[idx]
    if own == 'passes-positional':
        return (Shape(va='args', vk='kwargs'), Site(1, (), True, True))
    if own == 'none':
        return Shape(va='args', vk='kwargs')
    if own == 'kwo-default':
        return Shape(va='args', kwo=[(nm, True)], vk='kwargs')
    if own == 'kwo-required':
        return Shape(va='args', kwo=[(nm, False)], vk='kwargs')
    return Shape(pok=[(nm, False)], va='args', vk='kwargs')


def _draw_stack(cfg):
    depth = 1 + sym.pick(cfg.get('D', 2), 'depth')
    layers = []
    for i in range(depth):
        kind = 'decorator' if not cfg.get('wrapper_decorator', True) or sym.flip('kind') else 'wrapper_decorator'
        owns = tuple(cfg.get('own_forms', OWN))
        own = owns[sym.pick(len(owns), 'own')] if len(owns) > 1 else owns[0]
        layers.append((kind, own))
    return layers


def _build(spec, layers, placement, raises=False):
    """-> dict(obj=the callable under test, plain=hand-written composition, decos=[outermost first], g=function)"""
    body = '    raise Marker(("g", %s))' % (spec.names[0] if spec.names else '0') if raises else \
        '    return ("g", %s)' % ('locals()')
    g = U.make_function(spec.deflist(), body=body, name='g', globs={'Marker': Marker})
    deco_fns = []
    for i, (kind, own) in enumerate(layers):
        deflist, dbody = _deco_source(i, own)
        deco_fns.append(U.make_function(deflist, body=dbody, name='deco%d' % i))
    # innermost layer is layers[0]; apply in order, outermost = last
    def decorate(f):
        obj = f
        for (kind, own), fn in zip(layers, deco_fns):
            if kind == 'decorator':
                maker = wrappers.decorator(fn)          # (discovers the fixed positional from the source)
            elif own == 'passes-positional':
                maker = wrappers.wrapper_decorator(1)(fn)
            else:
                maker = wrappers.wrapper_decorator(fn)
            obj = maker(obj)
        return obj

    def compose(f):
        h = f
        for fn in deco_fns:
            h = functools.partial(fn, h)
        return h
    if placement == 'function':
        obj = decorate(g); plain = compose(g); unbound = obj
    elif placement == 'method':
        cls = type('C', (object,), {'m': decorate(g), 'p': g})
        inst = cls()
        obj = inst.m; plain = compose(inst.p); unbound = decorate(g)
    else:
        cls = type('C', (object,), {'m': staticmethod(decorate(g))})
        obj = cls().m; plain = compose(g); unbound = obj
    return dict(obj=obj, plain=plain, decos=list(reversed(deco_fns)), g=g, unbound=unbound)


def _render(spec, layers, placement):
    return '%s g%r under [%s]' % (placement, spec, ' > '.join('%s(%s)' % (k, o) for k, o in reversed(layers)))


def h_signature(ctx, cfg):
    spec = U.gen_sigs(1, cfg['K'])[0]
    layers = _draw_stack(cfg)
    placement = ('function', 'method', 'staticmethod')[sym.pick(3, 'placement')]
    with sym.notrace():
        ctx.case('signature of ' + _render(spec, layers, placement), nontrivial=False)
        first_positional = bool(spec.kinds) and spec.kinds[0] < 2
        if placement == 'method' and not first_positional:
            ctx.count('not-a-method')
            return
        b = _build(spec, layers, placement)
        gshape = spec.shape()
        if placement == 'method':
            gshape = Shape(gshape.po[1:] if gshape.po else (), gshape.pok if gshape.po else gshape.pok[1:],
                           gshape.va, gshape.kwo, gshape.vk)
        owns = [_own_shape(i, own) for i, (k, own) in enumerate(layers)]
        chain = list(reversed(owns))       # outermost first
        shapes_only = [c[0] if isinstance(c, tuple) else c for c in chain]
        ex = ChainExec(chain, gshape, real=b['obj'])
    for route, get in (('sigtools', sigtools.signature), ('inspect', inspect.signature)):
        try:
            with sym.concrete():
                R = get(b['obj'])
        except Exception as e:
            with sym.notrace():
                qn0 = all_names(shapes_only + [gshape])
            if isinstance(e, ValueError) and any(own == 'passes-positional' for k, own in layers) and ctx.impossible(qn0, ex):
                # a declared forwarding (wrapper_decorator(1)) that can never be honoured surfaces as ValueError
                ctx.count('declared-forwarding-impossible')
                continue
            ctx.require('retrieval-does-not-raise[%s]' % route, False, lambda: dict(exc=repr(e)))
            continue
        info = lambda: dict(reported=str(R), route=route)
        with sym.notrace():
            rs = shape_of(R)
            qn = all_names(shapes_only + [gshape, rs])
            bound = tuple(nm for sh in shapes_only + [gshape] for nm in sh.named)
            nc = NonColl(rs.kwable, bound)
        if ctx.impossible(qn, ex):
            ctx.count('never-callable')
            continue
        ctx.nontrivial = True
        ctx.refute('sound[%s]' % route, qn, And(Acc(rs), nc, Not(ex)), info)
    with sym.concrete():
        ws = list(wrappers.wrappers(b['unbound']))
    ctx.require('wrappers-lists-outermost-first', len(ws) == len(b['decos']) and all(a is c for a, c in zip(ws, b['decos'])),
                lambda: dict(got=repr(ws)))
    with sym.concrete():
        ws2 = list(wrappers.wrappers(b['obj']))
    ctx.require('wrappers-lists-outermost-first-when-bound', len(ws2) == len(b['decos']) and
                all(a is c for a, c in zip(ws2, b['decos'])), lambda: dict(got=repr(ws2), placement=placement))
    if placement == 'method' and not any(own in ('pok', 'passes-positional') for k, own in layers):
        # (with a positional own parameter the decorated function's self is not the first parameter)
        with sym.concrete():
            full = sigtools.signature(b['unbound'])
            bound_sig = sigtools.signature(b['obj'])
        ctx.require('binding-removes-exactly-the-first-parameter',
                    [(p.name, int(p.kind)) for p in bound_sig.parameters.values()] ==
                    [(p.name, int(p.kind)) for p in full.parameters.values()][1:],
                    lambda: dict(bound=str(bound_sig), unbound=str(full)))


def h_call(ctx, cfg):
    spec = U.gen_sigs(1, cfg['K'])[0]
    layers = _draw_stack(cfg)
    if cfg.get('min_depth') and len(layers) < cfg['min_depth']:
        sym.ignore_path() if False else None
        with sym.notrace():
            ctx.case('shallow stack skipped', nontrivial=False)
        return
    placements = tuple(cfg.get('placements', ('function', 'method', 'staticmethod')))
    placement = placements[sym.pick(len(placements), 'placement')] if len(placements) > 1 else placements[0]
    raises = sym.flip('raises')
    npos = sum(1 for k in spec.kinds if k < 2)
    n = sym.pick(npos + 3, 'n')
    own_names = [OWN_NAMES[i] for i, (k, own) in enumerate(layers) if own not in ('none', 'passes-positional')]
    kws = tuple(nm for nm in list(spec.names) + own_names + [FOREIGN_NAME] if sym.flip('kw'))
    avals = [sym.sym_val('av') for _ in range(n)]
    kvals = dict((nm, sym.sym_val('kv')) for nm in kws)
    with sym.notrace():
        ctx.case('call of %s%s n=%d kw={%s}' % (_render(spec, layers, placement), ' raising' if raises else '', n, ','.join(kws)),
                 nontrivial=False)
        first_positional = bool(spec.kinds) and spec.kinds[0] < 2
        if placement == 'method' and not first_positional:
            return
        b = _build(spec, layers, placement, raises)
    ctx.nontrivial = True

    def run(f):
        try:
            return ('returned', f(*avals, **kvals))
        except TypeError as e:
            return ('TypeError', None)
        except Marker as e:
            return ('Marker', e.args[0])
    got = run(b['obj'])
    want = run(b['plain'])
    info = lambda: dict(decorated=got[0], composition=want[0])
    if ctx.require('same-outcome-as-composition', got[0] == want[0], info):
        if got[0] == 'returned':
            ctx.require('same-result-as-composition', _same(got[1], want[1]), info)
        elif got[0] == 'Marker':
            ctx.require('exception-propagates-unchanged', _same(got[1], want[1]), info)


def _same(a, b):
    if isinstance(a, tuple) and isinstance(b, tuple):
        return len(a) == len(b) and all(_same(x, y) for x, y in zip(a, b))
    if isinstance(a, dict) and isinstance(b, dict):
        return set(a) == set(b) and all(_same(a[k], b[k]) for k in a)
    return a == b


NESTINGS = ('flat', 'nested-head', 'nested-tail', 'flat-repeat', 'nested-repeat', 'self-repeat')


class _AllAccept(And):
    """Every combined function accepts the call (z3); really evaluated by calling the Combination itself."""
    def __init__(self, shapes, comb):
        # the call must bind to Combination.__call__(arg, *args, **kwargs) itself, then to every function
        And.__init__(self, Acc(Shape(pok=[('arg', False)], va='args', vk='kwargs')), *[Acc(sh) for sh in shapes])
        self.comb = comb

    def real(self, call):
        from symx.callshape import really_accepts
        return really_accepts(self.comb, call[0], call[1], call[2])


def h_combination(ctx, cfg):
    count = 1 + sym.pick(cfg.get('count', 3), 'count')
    specs = U.gen_sigs(count, cfg['K'], cfg.get('total'))
    npos = max(sum(1 for k in s.kinds if k < 2) for s in specs)
    allnm = []
    for s in specs:
        for nm in s.names:
            if nm not in allnm:
                allnm.append(nm)
    if cfg.get('calls', True):
        n = 1 + sym.pick(npos + 1, 'n')
        kws = tuple(nm for nm in allnm + [FOREIGN_NAME] if sym.flip('kw'))
    else:
        n = 1; kws = ()
    avals = [sym.sym_val('av') for _ in range(n)]
    kvals = dict((nm, sym.sym_val('kv')) for nm in kws)
    with sym.notrace():
        shapes = [s.shape() for s in specs]
        cons = role_consistent(shapes)
        fns = [U.make_function(s.deflist(), body='    return ("f%d", %s)' % (j, s.names[0] if s.names and s.kinds[0] < 2 else '0'),
                               name='f%d' % j) for j, s in enumerate(specs)]
    forms = cfg.get('nesting', NESTINGS)
    form = forms[sym.pick(len(forms), 'nesting')] if len(forms) > 1 else forms[0]
    ctx.count('prod:nesting:' + form)
    with sym.notrace():
        ctx.case('Combination[%s] %s call n=%d kw={%s}' % (form, render_specs(specs), n, ','.join(kws)), nontrivial=False)
    C = wrappers.Combination
    if form == 'flat':
        comb = C(*fns)
    elif form == 'nested-head':
        comb = C(C(fns[0]), *fns[1:])
    elif form == 'nested-tail':
        comb = C(fns[0], C(*fns[1:])) if len(fns) > 1 else C(C(fns[0]))
    elif form == 'flat-repeat':
        comb = C(fns[0], *fns); fns = [fns[0]] + fns; shapes = [shapes[0]] + shapes
    elif form == 'nested-repeat':       # a nested combination repeating a function the outer one already holds
        comb = C(fns[0], C(*fns)); fns = [fns[0]] + fns; shapes = [shapes[0]] + shapes
    else:                               # 'self-repeat': the nested combination holds the same function twice
        comb = C(C(fns[0], fns[0]), *fns[1:]); fns = [fns[0]] + fns; shapes = [shapes[0]] + shapes

    def run(f):
        try:
            return ('returned', f(*avals, **kvals))
        except TypeError:
            return ('TypeError', None)

    def chain(arg, *a, **k):
        for fn in fns:
            arg = fn(arg, *a, **k)
        return arg
    got = run(comb); want = run(chain)
    ctx.nontrivial = True
    if ctx.require('combination-same-outcome', got[0] == want[0], lambda: dict(got=got[0], want=want[0])) and got[0] == 'returned':
        ctx.require('combination-same-result', _same(got[1], want[1]))
    if not cons:
        return
    try:
        with sym.concrete():
            R = sigtools.signature(comb)
    except ValueError:
        ctx.count('combination-signature-raises')
        return
    with sym.concrete():
        R2 = inspect.signature(comb)
    with sym.notrace():
        first = Shape(pok=[('arg', False)], va='args', vk='kwargs')
        allacc = _AllAccept(shapes, comb)
    for route, Rx in (('sigtools', R), ('inspect', R2)):
        info = lambda: dict(reported=str(Rx), route=route, combination_seen_by_inspect=(route == 'inspect'))
        with sym.notrace():
            rs = shape_of(Rx)
            qn = all_names(shapes + [rs, first])
            nc = NonColl(rs.kwable, qn)
        # (the first argument is handed on positionally: calls naming it by keyword are not modelled)
        ctx.refute('combination-signature-sound[%s]' % route, qn, And(Acc(rs), nc, KwDisjoint(['arg']), Not(allacc)), info)


def plan(tier):
    if tier == 'quick':
        return [
            dict(name='signature-K1-D2', fn='h_signature', depth=9, budget_s=300, cfg=dict(K=1, D=2),
                 bounds='decorated functions with <=1 named parameter x stacks of 1..2 layers (2 kinds x 5 own-parameter forms each, incl. a layer passing a positional of its own) x function/method/staticmethod',
                 min_nontrivial=300, must_reach=['sound', 'wrappers-lists-outermost-first', 'binding-removes-exactly-the-first-parameter']),
            dict(name='signature-K2-D1-own-positional', fn='h_signature', depth=8, budget_s=240,
                 cfg=dict(K=2, D=1, own_forms=['passes-positional', 'none']),
                 bounds='decorated functions with <=2 named parameters x 1 layer that passes a positional argument of its own (wrapper_decorator(1) declared / decorator discovered) or none x function/method/staticmethod',
                 min_nontrivial=300, must_reach=['sound']),
            dict(name='call-K1-D1', fn='h_call', depth=9, budget_s=300, cfg=dict(K=1, D=1),
                 bounds='decorated functions with <=1 named parameter x 1 layer x 3 placements x returning/raising body x calls n<=len+2, every keyword subset incl. own and foreign names; symbolic values',
                 min_nontrivial=300, must_reach=['same-result-as-composition', 'exception-propagates-unchanged']),
            dict(name='call-stacks-as-methods', fn='h_call', depth=9, budget_s=300,
                 cfg=dict(K=1, D=2, min_depth=2, placements=['method'], own_forms=['none', 'kwo-default']),
                 bounds='methods with <=1 named parameter under stacks of exactly 2 layers (2 kinds x own parameter none / keyword-only with default) x returning/raising body x calls; symbolic values',
                 min_nontrivial=300, must_reach=['same-result-as-composition']),
            dict(name='combination-signature-total2', fn='h_combination', depth=9, budget_s=300, cfg=dict(K=1, total=2, calls=False, nesting=['flat', 'nested-tail']),
                 bounds='Combination of 1..3 functions (flat or with a nested Combination) with <=1 named parameter each, <=2 in total; signature soundness for sigtools.signature and inspect.signature',
                 min_nontrivial=300, must_reach=['combination-signature-sound']),
            dict(name='combination-calls-total1', fn='h_combination', depth=9, budget_s=300, cfg=dict(K=1, total=1, count=2),
                 bounds='Combination of 1..2 functions with <=1 named parameter in total x 6 nesting forms (flat, nested head / tail, a function repeated flat / across / inside a nested Combination) x calls n<=len+1, every keyword subset incl. foreign; symbolic values',
                 min_nontrivial=300, must_reach=['combination-same-result']),
        ]
    return [
        dict(name='signature-K2-D3', fn='h_signature', depth=11, budget_s=3000, cfg=dict(K=2, D=3),
             bounds='decorated functions with <=2 named parameters x stacks of 1..3 layers x 3 placements (time-limited)', min_nontrivial=300),
        dict(name='call-K2-D2', fn='h_call', depth=11, budget_s=3000, cfg=dict(K=2, D=2),
             bounds='decorated functions with <=2 named parameters x 1..2 layers x 3 placements x calls (time-limited)', min_nontrivial=300),
        dict(name='combination-total3', fn='h_combination', depth=10, budget_s=1500, cfg=dict(K=2, total=3),
             bounds='Combination of 1..3 functions, <=3 named parameters in total x calls', min_nontrivial=300),
    ]
