"""C20 — sigtools.support: s / f / func_from_sig round trips, bind_callsig vs CPython, make_up_callsigs."""
import itertools

import sigtools
from sigtools import support, _signatures as S

from symx import sym, universe as U
from harness.common import *
from harness.algebra import *

PROPERTY = 'C20'
LEVEL = 'model_checking'
RULE = ('each CrossHair path decodes a signature from U(K) with literal defaults/annotations on a drawn subset of '
        'parameters, an optional return annotation, a read_sig option combination, eager/postponed compilation — '
        'and, in the binding harness, a call shape with SYMBOLIC argument and default values; distinct = distinct '
        'rendered instance; non-trivial = the obligations were evaluated')
EXPLANATION = ('Round trips compare the signature rebuilt by the real support.s / func_from_sig with the original '
               'field by field. bind_callsig and the function made by support.f are run on symbolic values and '
               'compared with really calling a native def of the same def-list: TypeError on exactly the same calls, '
               'otherwise the same mapping (z3 validity over the values).')
OUTSIDE = 'signatures with more named parameters than the bound; non-literal defaults/annotations; a keyword naming a positional-only parameter alongside **kwargs'
ASSUMPTIONS = ['modifiers spellings are compared up to the order of keyword-only parameters and only on signatures without positional-only parameters, as the property states']


def _annotated_text(spec, ann_on, ret):
    ann = dict((nm, repr('A' + nm) if i % 2 else str(10 + i)) for i, nm in enumerate(spec.names) if ann_on[i])
    values = dict((nm, str(100 + i)) for i, nm in enumerate(spec.names))
    return spec.deflist(values=values, annotations=ann), ann, values


def _sig_fields(sig, postponed):
    out = []
    for p in sig.parameters.values():
        a = p.upgraded_annotation.source_value() if postponed else p.annotation
        out.append((p.name, int(p.kind), None if p.default is p.empty else p.default,
                    None if a is p.empty else a))
    return out


def _kwo_sorted(fields):
    head = [f for f in fields if f[1] != 3]
    kwo = sorted(f for f in fields if f[1] == 3)
    # keep *args / **kwargs positions: compare as (non-kwo in order, sorted kwo)
    return head, kwo


def h_roundtrip(ctx, cfg):
    spec = U.gen_sigs(1, cfg['K'])[0]
    ann_on = [sym.flip('ann') for _ in spec.names]
    has_ret = sym.flip('ret')
    opts = draw_flags(('use_modifiers_annotate', 'use_modifiers_posoargs', 'use_modifiers_kwoargs'))
    postponed = sym.flip('pep563')
    with sym.notrace():
        text, ann, values = _annotated_text(spec, ann_on, has_ret)
        ctx.case('roundtrip (%s)%s %s %s' % (text, " -> 'R'" if has_ret else '', render_flags(opts),
                                              'postponed' if postponed else 'eager'), nontrivial=True)
        orig = U.make_function(text + ((") -> 'R'" + "(").join(['', '']) if False else ''), name='orig',
                               cache_key=('c20',)) if not has_ret else None
        # original built natively (with the return annotation when requested)
        src_def = text
        ns = {}
        exec('def orig(%s)%s:\n    return locals()\n' % (src_def, " -> 'R'" if has_ret else ''), ns)
        orig = ns['orig']
        osig = S.signature(orig)
        has_po = any(k == 0 for k in spec.kinds)
        modifiers_spelling = any(opts.values())
    want = _sig_fields(osig, False)
    info = lambda: dict(text=str(osig), options=render_flags(opts))
    future = ('annotations',) if postponed else ()
    inner = str(osig.replace(return_annotation=osig.empty))[1:-1]
    ret = "'R'" if has_ret else support._util.UNSET
    if modifiers_spelling and has_po:
        ctx.count('modifiers-spelling-with-positional-only-excluded')
    else:
        try:
            got_sig = support.s(inner, ret, future_features=future, **opts)
        except Exception as e:
            ctx.require('s-roundtrip', False, lambda: dict(info(), exc=repr(e)))
            return
        got = _sig_fields(got_sig, postponed)
        if modifiers_spelling:
            same = _kwo_sorted(got) == _kwo_sorted(want)
        else:
            same = got == want
        ctx.require('s-roundtrip', same, lambda: dict(info(), got=str(got_sig), fields=got, want=want))
        gr = got_sig.upgraded_return_annotation.source_value()
        ctx.require('s-roundtrip-return', (gr == 'R') if has_ret else (gr is got_sig.empty),
                    lambda: dict(info(), got=repr(gr)))
    if not any(opts.values()) and not postponed:
        try:
            fn2 = support.func_from_sig(osig)
            sig2 = sigtools.signature(fn2)
        except Exception as e:
            ctx.require('func_from_sig-roundtrip', False, lambda: dict(info(), exc=repr(e)))
            return
        ctx.require('func_from_sig-roundtrip', _sig_fields(sig2, False) == want and
                    sig2.return_annotation == osig.return_annotation,
                    lambda: dict(info(), got=str(sig2)))


def _native(spec, dvals):
    values = dict((nm, 'D_' + nm) for nm, d in zip(spec.names, spec.defaults) if d)
    globs = dict(('D_' + nm, dvals[nm]) for nm in values)
    return U.make_function(spec.deflist(values=values), name='native', globs=globs), values, globs


def h_bind(ctx, cfg):
    spec = U.gen_sigs(1, cfg['K'])[0]
    npos = sum(1 for k in spec.kinds if k < 2)
    n = sym.pick(npos + 3, 'n')
    kws = tuple(nm for nm in list(spec.names) + [FOREIGN_NAME] if sym.flip('kw'))
    dvals = dict((nm, sym.sym_val('dv')) for nm, d in zip(spec.names, spec.defaults) if d)
    avals = tuple(sym.sym_val('av') for _ in range(n))
    kvals = dict((nm, sym.sym_val('kv')) for nm in kws)
    with sym.notrace():
        ctx.case('bind %r n=%d kw={%s}' % (spec, n, ','.join(kws)), nontrivial=True)
        po_names = [nm for nm, k in zip(spec.names, spec.kinds) if k == 0]
        if spec.vk and any(k in po_names for k in kws):
            ctx.count('excluded-po-name-by-keyword-with-varkwargs')
            return
        native, values, globs = _native(spec, dvals)
        sig = S.signature(native)
        made = support.f(spec.deflist(values=values), globals=globs)
    info = lambda: dict(sig=str(sig))
    try:
        want, werr = native(*avals, **kvals), None
    except TypeError as e:
        want, werr = None, e
    # bind_callsig
    try:
        got, gerr = support.bind_callsig(sig, avals, kvals), None
    except TypeError as e:
        got, gerr = None, e
    if ctx.require('bind_callsig-accepts-iff-cpython', (gerr is None) == (werr is None),
                   lambda: dict(info(), bind_callsig=repr(gerr) if gerr else 'returned',
                                cpython=repr(werr) if werr else 'returned')) and gerr is None:
        ctx.require('bind_callsig-same-mapping', set(got) == set(want) and all(got[k] == want[k] for k in want),
                    lambda: dict(info(), got=got, want=want))
    valid, invalid = support.sort_callsigs(sig, [(avals, kvals)])
    ctx.require('sort_callsigs-partitions', (len(valid), len(invalid)) == ((1, 0) if werr is None else (0, 1)),
                lambda: dict(info(), valid=len(valid), invalid=len(invalid)))
    # the function made by support.f
    try:
        got2, gerr2 = made(*avals, **kvals), None
    except TypeError as e:
        got2, gerr2 = None, e
    if ctx.require('f-accepts-iff-cpython', (gerr2 is None) == (werr is None), info) and gerr2 is None:
        ctx.require('f-returns-mapping', set(got2) == set(want) and all(got2[k] == want[k] for k in want),
                    lambda: dict(info(), got=got2, want=want))


def h_makeup(ctx, cfg):
    spec = U.gen_sigs(1, cfg['K'])[0]
    extra = sym.pick(3, 'extra')
    with sym.notrace():
        ctx.case('make_up_callsigs %r extra=%d' % (spec, extra), nontrivial=True)
        sig = U.sig_of(spec, 'f0')[0]
    got = support.make_up_callsigs(sig, extra=extra)
    with sym.notrace():
        have = set((a, frozenset(k)) for a, k in got)
        named = list(spec.names) + ['__make_up_callsigs__extra_%d' % i for i in range(extra)]
        kwnames = named + ([spec.stars[0]] if spec.va else []) + ([spec.stars[1]] if spec.vk else [])
        missing = 0
        for i in range(len(named) + 1):
            for r in range(len(kwnames) + 1):
                for c in itertools.combinations(kwnames, r):
                    if (tuple(named[:i]), frozenset(c)) not in have:
                        missing += 1
        values_ok = all(all(k == v for k, v in kw.items()) for _, kw in got)
    ctx.require('make_up_callsigs-complete', missing == 0, lambda: dict(missing=missing, total=len(got)))
    ctx.require('make_up_callsigs-values', values_ok)


def plan(tier):
    if tier == 'quick':
        return [
            dict(name='roundtrip-K2', fn='h_roundtrip', depth=9, budget_s=300, cfg=dict(K=2),
                 bounds='signatures with <=2 named parameters x annotation subsets x return annotation x 8 read_sig option combinations x eager/postponed',
                 min_nontrivial=500, must_reach=['s-roundtrip', 'func_from_sig-roundtrip', 's-roundtrip-return']),
            dict(name='bind-K2', fn='h_bind', depth=9, budget_s=300, cfg=dict(K=2),
                 bounds='signatures with <=2 named parameters x calls with n<=len+2, every keyword subset incl. foreign; symbolic argument and default values',
                 min_nontrivial=500, must_reach=['bind_callsig-accepts-iff-cpython', 'bind_callsig-same-mapping',
                                                 'f-returns-mapping', 'sort_callsigs-partitions']),
            dict(name='makeup-K2', fn='h_makeup', depth=6, budget_s=120, cfg=dict(K=2),
                 bounds='signatures with <=2 named parameters, extra in 0..2', min_nontrivial=100,
                 must_reach=['make_up_callsigs-complete']),
        ]
    return [
        dict(name='roundtrip-K3', fn='h_roundtrip', depth=10, budget_s=2400, cfg=dict(K=3),
             bounds='signatures with <=3 named parameters x annotation subsets x return annotation x 8 option combinations x eager/postponed',
             min_nontrivial=500),
        dict(name='bind-K3', fn='h_bind', depth=10, budget_s=2400, cfg=dict(K=3),
             bounds='signatures with <=3 named parameters x calls with n<=len+2, every keyword subset incl. foreign; symbolic values',
             min_nontrivial=500),
        dict(name='makeup-K3', fn='h_makeup', depth=8, budget_s=600, cfg=dict(K=3),
             bounds='signatures with <=3 named parameters, extra in 0..2', min_nontrivial=100),
    ]
