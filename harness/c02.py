"""C02 — embed: the result behaves like outer forwarding its star parameters to inner."""
from sigtools import _signatures as S

from symx import sym, universe as U
from harness.common import *
from harness.algebra import *

PROPERTY = 'C02'
LEVEL = 'model_checking'
RULE = ('each CrossHair path decodes (outer, inner[, innermost]) from U(K) — inner stars named like the outer\'s or '
        'differently — and the two use_* flags, and runs the real embed; distinct = distinct rendered instance; '
        'non-trivial = embed returned a signature and the z3 obligations were evaluated')
EXPLANATION = ('Per instance z3 decides over all call shapes that Accept(embed,c) & NonColl & ~Exec(outer forwards to '
               'inner, c) is unsat (soundness), that the converse is unsat unless an outer defaulted positional is '
               'followed by an inner positional (exactness), and, when embed raises, that the inputs share a named '
               'parameter or Exec is unsatisfiable. Exec = Accept(outer,c) & Accept(inner, what outer collects in '
               'the stars it forwards).')
OUTSIDE = 'signatures with more named parameters than the bound; more than three signatures'
ASSUMPTIONS = ['foreign keywords are represented by one Boolean',
               'Exec is the forwarding model of DESIGN.md 3.4, validated against really executed wrappers on every run']


def _site(uva, uvk):
    return Site(0, (), bool(uva), bool(uvk))


def h_pair(ctx, cfg):
    specs = U.gen_sigs(2, cfg['K'], cfg.get('total'), star_variants=cfg.get('stars', True))
    uva = sym.flip('uva'); uvk = sym.flip('uvk')
    with sym.notrace():
        ctx.case('embed %s use_varargs=%d use_varkwargs=%d' % (render_specs(specs), uva, uvk), nontrivial=False)
        (so, fo), (si, fi) = [U.sig_of(s, 'f%d' % j) for j, s in enumerate(specs)]
        o, i = specs[0].shape(), specs[1].shape()
        names = all_names([o, i])
        ex = Exec(o, [(_site(uva, uvk), i)])
    try:
        with sym.concrete():
            R = S.embed(so, si, use_varargs=uva, use_varkwargs=uvk)
    except ValueError:          # (which ValueError subclass is C15's business)
        ctx.count('raised')
        if set(o.named) & set(i.named):
            ctx.count('raised-shared-name')
            return
        ctx.refute('raise-only-if-shared-name-or-impossible', names, ex)
        return
    ctx.count('returned')
    ctx.nontrivial = True
    with sym.notrace():
        rs = shape_of(R)
        names = all_names([o, i, rs])
        nc = NonColl(rs.kwable, names)
        info = lambda: dict(result=str(R))
        # exactness exception: an outer positional with a default is followed, in the result, by an inner positional
        onames = set(n for n, _ in o.po + o.pok)
        inames = set(n for n, _ in i.po + i.pok)
        odef = set(n for n, d in o.po + o.pok if d)
        seen_odef = False; excepted = False
        for nm, _ in rs.po + rs.pok:
            if nm in odef:
                seen_odef = True
            elif nm in inames and seen_odef:
                excepted = True
    ctx.refute('sound', names, And(Acc(rs), nc, Not(ex)), info)
    if not excepted:
        ctx.refute('exact', names, And(ex, nc, Not(Acc(rs))), info)
    else:
        ctx.count('exactness-excepted')


def h_laws(ctx, cfg):
    specs = U.gen_sigs(3, cfg['K'], cfg.get('total'), star_variants=cfg.get('stars', False))
    if cfg.get('flags', True):
        uva = sym.flip('uva'); uvk = sym.flip('uvk')
    else:
        uva = uvk = True
    with sym.notrace():
        ctx.case('embed-assoc %s use_varargs=%d use_varkwargs=%d' % (render_specs(specs), uva, uvk), nontrivial=True)
        sigs = [U.sig_of(s, 'f%d' % j)[0] for j, s in enumerate(specs)]
    A = B = ea = eb = None
    try:
        A = S.embed(*sigs, use_varargs=uva, use_varkwargs=uvk)
    except ValueError as e:
        ea = e
    try:
        B = S.embed(S.embed(sigs[0], sigs[1], use_varargs=uva, use_varkwargs=uvk), sigs[2],
                    use_varargs=uva, use_varkwargs=uvk)
    except ValueError as e:
        eb = e
    info = lambda: dict(nary=str(A) if A is not None else repr(ea), fold=str(B) if B is not None else repr(eb))
    if ctx.require('assoc-same-outcome', (A is None) == (B is None), info) and A is not None:
        ctx.require('assoc-same-params', params_key(A) == params_key(B), info)


def h_identity(ctx, cfg):
    spec = U.gen_sigs(1, cfg['K'])[0]
    alt = sym.flip('alt')
    with sym.notrace():
        ctx.case('embed-identity %r stars=%s' % (spec, 'rest/kw' if alt else 'args/kwargs'), nontrivial=True)
        sig = U.sig_of(spec, 'f0')[0]
        bare = U.sig_of(U.Spec((), (), True, True, (), U.STAR_ALT if alt else U.STAR_DEFAULT), 'g%d' % alt)[0]
    R = S.embed(bare, sig)
    ctx.require('embed(bare,s)=s', params_key(R, True) == params_key(sig, True), lambda: dict(got=str(R)))


def plan(tier):
    if tier == 'quick':
        return [
            dict(name='pairs-total3', fn='h_pair', depth=9, budget_s=300, cfg=dict(K=2, total=3, stars=False),
                 bounds='(outer, inner) with <=2 named each, <=3 in total, same star names, 4 flag combinations',
                 min_nontrivial=1000, must_reach=['sound', 'exact', 'raise-only-if-shared-name-or-impossible']),
            dict(name='pairs-total2-stars', fn='h_pair', depth=8, budget_s=200, cfg=dict(K=2, total=2, stars=True),
                 bounds='(outer, inner) with <=2 named in total, equal/different star names, 4 flag combinations',
                 min_nontrivial=500),
            dict(name='assoc-triples-total2', fn='h_laws', depth=9, budget_s=200, cfg=dict(K=2, total=2, flags=False),
                 bounds='triples with <=2 named in total, both stars forwarded', min_nontrivial=500,
                 must_reach=['assoc-same-params']),
            dict(name='identity-K3', fn='h_identity', depth=6, budget_s=100, cfg=dict(K=3),
                 bounds='all signatures with <=3 named parameters, bare outer (*args, **kwargs) / (*rest, **kw)',
                 min_nontrivial=300, must_reach=['embed(bare,s)=s']),
        ]
    return [
        dict(name='pairs-K3-total4-stars', fn='h_pair', depth=10, budget_s=2700, cfg=dict(K=3, total=4, stars=True),
             bounds='(outer, inner) with <=3 named each, <=4 in total, equal/different star names, 4 flag combinations',
             min_nontrivial=1000),
        dict(name='assoc-triples-total3', fn='h_laws', depth=10, budget_s=1800, cfg=dict(K=2, total=3, stars=True),
             bounds='triples with <=3 named in total, star-name variants, 4 flag combinations', min_nontrivial=500),
        dict(name='identity-K4', fn='h_identity', depth=8, budget_s=300, cfg=dict(K=4),
             bounds='all signatures with <=4 named parameters', min_nontrivial=300),
    ]
