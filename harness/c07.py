"""C07 — retrieval is total and only ever narrows the callable's own signature."""
import functools
import importlib
import inspect
import linecache
import sys
import types

import sigtools
from sigtools import _signatures as S

from symx import sym, universe as U
from harness.common import *

PROPERTY = 'C07'
LEVEL = 'model_checking'
RULE = ('(a) each CrossHair path picks one or two constructs of an adversarial-source table (async, generators, walrus, match, '
        'comprehensions, starred calls, global/nonlocal, class bodies, decorators, lambdas, exec-defined functions with and '
        'without source, builtins, C callables, classes, partials, callable instances), with or without a forwarding call, and '
        'runs the three retrieval entry points on the real object; (b) each path picks one callable of a corpus walked from '
        'importable modules — a finite corpus enumerated concretely, the solver deciding only the call dimension; (c) each path '
        'picks one documentable object of a fixture module for the Sphinx hook. distinct = distinct object; non-trivial = '
        'inspect.signature succeeded and the narrowing obligation was decided by z3')
EXPLANATION = ('Totality: same outcome class as inspect.signature (UpgradedSignature vs the same exception type) for '
               'sigtools.signature(auto=True/False) and signatures.signature. Narrowing for plain functions/methods: z3 decides over '
               'all call shapes that Accept(R,c) & NonColl & ~Accept(own def-list,c) is unsat.')
OUTSIDE = 'callables not in the corpus / construct table; modules not installed in this sandbox'
ASSUMPTIONS = ['the corpus part is a finite enumeration (corpus_callables in the evidence), not a solver-quantified space']

# ------------------------------------------------------------------ (a) adversarial constructs

_CALLEE = ('import functools\ndef callee(x, y=2, *, z=3):\n    return x\n'
           'def other_callee(*, zz_required):\n    return None\n')

# (name, body lines) — bodies of `def f(*args, **kwargs)` / `def f(a, b=1, *args, **kwargs)`; SITE is replaced by a
# forwarding call or by a constant
BODIES = [
    ('plain', 'return SITE'),
    ('walrus', 'if (n := len(args)) > 100:\n    return n\nreturn SITE'),
    ('match', 'match len(args):\n    case 0:\n        return SITE\n    case _:\n        return SITE'),
    ('listcomp', 'return [SITE for _ in (0,)]'),
    ('setcomp', 'return {repr(SITE) for _ in (0,)}'),
    ('dictcomp', 'return {i: SITE for i in (0,)}'),
    ('genexp', 'return list(SITE for _ in (0,))'),
    ('starred-assign', 'first, *others = (1, 2, 3)\nreturn SITE'),
    ('starred-call', 'print(*[1, 2], **{"sep": ""}, end="")\nreturn SITE'),
    ('global', 'global _c07_counter\n_c07_counter = 1\nreturn SITE'),
    ('nonlocal', 'state = 0\ndef bump():\n    nonlocal state\n    state += 1\nbump()\nreturn SITE'),
    ('class-body', 'class Local(object):\n    attr = 1\n    def meth(self, *args, **kwargs):\n        return callee(*args, **kwargs)\nreturn SITE'),
    ('nested-class', 'class A(object):\n    class B(object):\n        pass\nreturn SITE'),
    ('lambda-defaults', 'g = lambda q=1, *a, **k: callee(*a, **k)\nreturn SITE'),
    ('try-except', 'try:\n    return SITE\nexcept KeyError as exc:\n    raise\nfinally:\n    pass'),
    ('with', 'import contextlib\nwith contextlib.suppress(KeyError) as cm:\n    return SITE'),
    ('while-else', 'i = 0\nwhile i < 1:\n    i += 1\nelse:\n    return SITE'),
    ('fstring', 'label = f"{len(args)!r:>4}"\nreturn SITE'),
    ('conditional-expr', 'return SITE if args or not args else None'),
    ('subscript-slices', 'seq = list(range(5))[1:3:1]\nreturn SITE'),
    ('annotated-assign', 'value: int = 3\nreturn SITE'),
    ('del-local', 'tmp = 1\ndel tmp\nreturn SITE'),
    ('assert-raise', 'assert True, "ok"\nif False:\n    raise ValueError from None\nreturn SITE'),
    ('docstring', '"""doc\n\n    indented\n"""\nreturn SITE'),
    ('nested-def-kwonly-required', 'def pick(item, *, field):\n    return item\nreturn SITE'),
    ('nested-def-kwonly-mixed', 'def pick(item, *rest, field, other=2, **more):\n    return item\nreturn SITE'),
    ('nested-def-posonly', 'def pick(item, /, extra=1):\n    return item\nreturn SITE'),
    ('nested-def-annotated', 'def pick(item: int, *a: str, k: float = 1.0, **kw: bytes) -> list:\n    return []\nreturn SITE'),
    ('nested-def-decorated', 'import functools\n@functools.lru_cache(maxsize=None)\ndef pick(item):\n    return item\nreturn SITE'),
    ('nested-async-def', 'async def later(*a, **k):\n    return callee(*a, **k)\nreturn SITE'),
    ('lambda-kwonly-required', 'g = lambda *, scale: scale\nreturn SITE'),
    ('lambda-in-default', 'def pick(item, key=lambda v, *, r=1: v):\n    return item\nreturn SITE'),
    ('multi-for-comprehension', 'pairs = [(i, j) for i in range(2) for j in range(2) if i != j]\nreturn SITE'),
    ('nested-comprehension-lambda', 'fs = [lambda x, *, k=i: x + k for i in range(2)]\nreturn SITE'),
    ('call-unpacking-elsewhere', 'print(*[1], *[2], **{"sep": ""}, **{"end": ""})\nreturn SITE'),
    ('dict-set-unpacking', 'merged = {**{"a": 1}, **{"b": 2}}\nitems = [*range(2), *range(2)]\nreturn SITE'),
    ('global-and-del', 'global _c07_other\n_c07_other = 2\ndel _c07_other\nreturn SITE'),
    ('try-except-star', 'try:\n    pass\nexcept* ValueError as eg:\n    pass\nreturn SITE'),
    ('type-alias-statement', 'type Alias = int\nreturn SITE'),
    ('chained-comparison-boolop', 'ok = 0 <= len(args) < 5 and not kwargs or True\nreturn SITE'),
    ('augmented-subscript', 'table = {}\ntable.setdefault("k", []).append(1)\ntable["k"] += [2]\nreturn SITE'),
    ('return-in-loop-else', 'for i in range(1):\n    continue\nelse:\n    return SITE'),
    ('forwards-to-partial-of-stars', 'g = functools.partial(*args, **kwargs) if args else None\nreturn SITE'),
    ('forwards-to-partial-empty', 'g = functools.partial(**kwargs) if False else None\nreturn SITE'),
    ('too-many-fixed-positionals', 'if len(args) > 10 ** 9:\n    callee(1, 2, 3, 4, *args, **kwargs)\nreturn SITE'),
    ('unknown-keyword-to-callee', 'if len(args) > 10 ** 9:\n    callee(*args, zz_unknown=1, **kwargs)\nreturn SITE'),
    ('two-incompatible-callees', 'if len(args) > 10 ** 9:\n    return other_callee(*args, **kwargs)\nreturn SITE'),
    ('column0-multiline-string', 'text = \'\'\'first\n\x00second at column 0\n\x00\'\'\'\nreturn SITE'),
    ('call-of-call-result', 'def make():\n    return callee\nif len(args) > 10 ** 9:\n    return make()(*args, **kwargs)\nreturn SITE'),
    ('call-of-subscript', 'handlers = {0: callee}\nif len(args) > 10 ** 9:\n    return handlers[0](*args, **kwargs)\nreturn SITE'),
    ('forwards-to-class', 'class Target(object):\n    def __init__(self, x, y=1):\n        pass\nif len(args) > 10 ** 9:\n    return Target(*args, **kwargs)\nreturn SITE'),
    ('forwards-to-builtin', 'if len(args) > 10 ** 9:\n    return dict(*args, **kwargs)\nreturn SITE'),
    ('forwards-to-none', 'nothing = None\nif len(args) > 10 ** 9:\n    return nothing(*args, **kwargs)\nreturn SITE'),
]
KINDS = ('def', 'async-def', 'generator', 'decorated', 'method', 'exec-no-source', 'lambda')

OBJECTS = [
    ('builtin-len', lambda: len), ('builtin-print', lambda: print), ('builtin-type-int', lambda: int),
    ('builtin-type-dict', lambda: dict), ('builtin-type-object', lambda: object), ('builtin-type-type', lambda: type),
    ('c-method-descriptor', lambda: str.join), ('c-bound-method', lambda: [].append), ('c-dict-get', lambda: {}.get),
    ('operator-add', lambda: __import__('operator').add), ('operator-itemgetter', lambda: __import__('operator').itemgetter(0)),
    ('functools-partial', lambda: functools.partial(_callee_fn(), 1)),
    ('functools-partial-kw', lambda: functools.partial(_callee_fn(), z=5)),
    ('functools-partial-uncallable', lambda: functools.partial(_star_fn(), 1, 2, 3)),
    ('functools-partial-of-builtin', lambda: functools.partial(len)),
    ('lru-cache', lambda: functools.lru_cache()(_callee_fn())),
    ('singledispatch', lambda: functools.singledispatch(_callee_fn())),
    ('class-with-init', lambda: type('WithInit', (object,), {'__init__': _method_fn()})),
    ('class-with-new', lambda: type('WithNew', (object,), {'__new__': _new_fn()})),
    ('class-with-call-instance', lambda: type('WithCall', (object,), {'__call__': _method_fn()})()),
    ('class-without-init', lambda: type('Bare', (object,), {})),
    ('class-forwarding-init', lambda: _fwd_init_class()),
    ('metaclass-call', lambda: _meta_class()),
    ('dataclass', lambda: _dataclass()), ('namedtuple', lambda: __import__('collections').namedtuple('NT', 'a b')),
    ('enum', lambda: __import__('enum').Enum('Color', 'RED GREEN')),
    ('staticmethod-on-class', lambda: _sm_class().sm), ('classmethod-on-class', lambda: _sm_class().cm),
    ('bound-method', lambda: _sm_class()().meth), ('unbound-function', lambda: _sm_class().meth),
    ('not-callable-int', lambda: 5), ('not-callable-str', lambda: 'text'), ('none', lambda: None),
    ('module', lambda: types), ('generator-object', lambda: (i for i in ())),
    ('property-object', lambda: property(lambda self: 1)),
    ('wrapped-chain', lambda: _wrapped_chain()),
    ('signature-attribute', lambda: _with_signature()),
    ('bad-signature-attribute', lambda: _with_bad_signature()),
    ('method-wrapper', lambda: (1).__add__), ('slot-wrapper', lambda: int.__add__),
    ('abstract-class', lambda: __import__('collections.abc').abc.Mapping),
    ('typing-generic-alias', lambda: __import__('typing').List[int]),
    ('exception-class', lambda: ValueError), ('builtin-class-method', lambda: dict.fromkeys),
    # objects whose __getattr__ answers every name (they seem to carry every protocol attribute)
    ('mock-Mock', lambda: __import__('unittest.mock').mock.Mock()),
    ('mock-MagicMock', lambda: __import__('unittest.mock').mock.MagicMock()),
    ('mock-NonCallableMock', lambda: __import__('unittest.mock').mock.NonCallableMock()),
    ('mock-call', lambda: __import__('unittest.mock').mock.call),
    ('catch-all-getattr-callable', lambda: _catch_all(True)), ('catch-all-getattr-noncallable', lambda: _catch_all(False)),
    # a method that forwards its own star together with an attribute whose value discovery can look at
    ('star-attr-kwargs-None', lambda: _star_attr('**self.more', 'None')), ('star-attr-kwargs-int', lambda: _star_attr('**self.more', '5')),
    ('star-attr-kwargs-dict', lambda: _star_attr('**self.more', "{'z': 1}")),
    ('star-attr-kwargs-nonstr-keys', lambda: _star_attr('**self.more', '{1: 2}')),
    ('star-attr-kwargs-list-of-singletons', lambda: _star_attr('**self.more', "[('a',)]")),
    ('star-attr-args-None', lambda: _star_attr('*self.more', 'None')), ('star-attr-args-int', lambda: _star_attr('*self.more', '5')),
    ('star-attr-args-tuple', lambda: _star_attr('*self.more', '(1,)')),
    ('star-attr-args-too-many', lambda: _star_attr('*self.more', '(1, 2, 3, 4)')),
    ('star-attr-args-str', lambda: _star_attr('*self.more', "'ab'")),
    # functions made by a factory whose body refers to the factory's variables
    ('closure-nonlocal-in-nested-def', lambda: _factory('def bump():\n            nonlocal calls\n            calls += 1\n        bump()')),
    ('closure-nonlocal-at-top', lambda: _factory('nonlocal calls\n        calls += 1')),
    ('closure-nonlocal-two-levels', lambda: _factory('def a():\n            def b():\n                nonlocal calls\n                calls += 1\n            b()\n        a()')),
    ('closure-nonlocal-named-like-star', lambda: _factory('def bump():\n            nonlocal calls, kwargs\n            calls += 1\n        bump()')),
    ('closure-global-in-nested-def', lambda: _factory('def bump():\n            global calls_g\n            calls_g = 1\n        bump()')),
]


def _factory(stmts):
    src = (_CALLEE + 'def make():\n    calls = 0\n    def wrapper(*args, **kwargs):\n        %s\n        return callee(*args, **kwargs)\n'
           '    return wrapper\nwrapper = make()\n' % stmts)
    return _source_fn(src, 'wrapper')


def _star_attr(star, value):
    own = '*args' if star.startswith('**') else '**kwargs'
    src = (_CALLEE + 'class Holder(object):\n    def __init__(self):\n        self.more = %s\n'
           '    def meth(self, *args, **kwargs):\n        return callee(%s)\n' % (
               value, ', '.join(sorted([own, star], key=lambda t: t.count('*')))))
    return _source_fn(src, 'Holder')().meth


def _catch_all(callable_):
    ns = {}
    exec('class Any(object):\n    def __getattr__(self, name):\n        if name.startswith("__"):\n            raise AttributeError(name)\n'
         '        return Any()\n' + ('    def __call__(self, *args, **kwargs):\n        return Any()\n' if callable_ else ''), ns)
    return ns['Any']()


def _callee_fn():
    ns = {}
    exec(_CALLEE, ns)
    return ns['callee']


def _star_fn():
    return _source_fn('def starred(**kwargs):\n    return None\n', 'starred')


def _method_fn():
    return _source_fn('def meth(self, a, b=1, *args, **kwargs):\n    return None\n', 'meth')


def _new_fn():
    return _source_fn('def __new__(cls, a, *args, **kwargs):\n    return object.__new__(cls)\n', '__new__')


_src_counter = [0]


def _source_fn(src, name, globs=None, register=True):
    _src_counter[0] += 1
    fname = '<symx-c07-%d>' % _src_counter[0]
    if register:
        linecache.cache[fname] = (len(src), None, src.splitlines(True), fname)
    ns = dict(globs or {})
    exec(compile(src, fname, 'exec'), ns)
    return ns[name]


def _fwd_init_class():
    src = ('class Base(object):\n    def __init__(self, x, y=1):\n        pass\n'
           'class Child(Base):\n    def __init__(self, extra, *args, **kwargs):\n        super().__init__(*args, **kwargs)\n')
    return _source_fn(src, 'Child')


def _meta_class():
    src = ('class Meta(type):\n    def __call__(cls, *args, **kwargs):\n        return super().__call__(*args, **kwargs)\n'
           'class WithMeta(metaclass=Meta):\n    def __init__(self, p, q=2):\n        pass\n')
    return _source_fn(src, 'WithMeta')


def _dataclass():
    src = 'import dataclasses\n@dataclasses.dataclass\nclass DC:\n    a: int\n    b: str = "x"\n'
    return _source_fn(src, 'DC')


def _sm_class():
    src = ('class SM(object):\n    @staticmethod\n    def sm(a, *args, **kwargs):\n        return None\n'
           '    @classmethod\n    def cm(cls, a, b=2):\n        return None\n'
           '    def meth(self, a, *args, **kwargs):\n        return None\n')
    return _source_fn(src, 'SM')


def _wrapped_chain():
    src = ('import functools\n' + _CALLEE +
           'def deco(f):\n    @functools.wraps(f)\n    def w(*args, **kwargs):\n        return f(*args, **kwargs)\n    return w\n'
           'chain = deco(deco(deco(callee)))\n')
    return _source_fn(src, 'chain')


def _with_signature():
    f = _source_fn('def f(*args, **kwargs):\n    return None\n', 'f')
    f.__signature__ = inspect.signature(_callee_fn())
    return f


def _with_bad_signature():
    f = _source_fn('def f(*args, **kwargs):\n    return None\n', 'f')
    f.__signature__ = 'not a signature'
    return f


def _construct(body_idx, kind, with_site, with_params):
    name, body = BODIES[body_idx]
    site = 'callee(*args, **kwargs)' if with_site else '0'
    body = body.replace('SITE', site)
    deflist = 'a, b=1, *args, **kwargs' if with_params else '*args, **kwargs'
    ind = lambda t, n=1: '\n'.join((l[1:] if l.startswith('\x00') else ('    ' * n + l if l else l)) for l in t.split('\n'))
    if kind == 'lambda':
        src = _CALLEE + 'f = lambda %s: %s\n' % (deflist, site)
        return _source_fn(src, 'f'), deflist
    if kind == 'async-def':
        src = _CALLEE + 'async def f(%s):\n%s\n' % (deflist, ind(body))
    elif kind == 'generator':
        src = _CALLEE + 'def f(%s):\n    yield 1\n%s\n' % (deflist, ind(body))
    elif kind == 'decorated':
        src = _CALLEE + 'def ident(fn):\n    return fn\n@ident\n@ident\ndef f(%s):\n%s\n' % (deflist, ind(body))
    elif kind == 'method':
        src = _CALLEE + 'class K(object):\n    def f(self, %s):\n%s\nf = K().f\n' % (deflist, ind(body, 2))
    else:
        src = _CALLEE + 'def f(%s):\n%s\n' % (deflist, ind(body))
    return _source_fn(src, 'f', register=(kind != 'exec-no-source')), deflist


def _outcome(fn):
    try:
        with sym.concrete():
            return fn(), None
    except Exception as e:
        return None, e


def _totality(ctx, obj, label):
    """-> the sigtools signature when inspect succeeds, else None"""
    want, werr = _outcome(lambda: inspect.signature(obj))
    result = None
    for route, get in (('sigtools.signature', lambda: sigtools.signature(obj)),
                       ('sigtools.signature(auto=False)', lambda: sigtools.signature(obj, auto=False)),
                       ('signatures.signature', lambda: S.signature(obj))):
        got, gerr = _outcome(get)
        info = lambda: dict(object=label, route=route, inspect=repr(werr) if werr else str(want),
                            got=repr(gerr) if gerr else str(got))
        if werr is None:
            if ctx.require('returns-whenever-inspect-does', gerr is None, info):
                ctx.require('returns-UpgradedSignature', isinstance(got, S.UpgradedSignature) and
                            all(isinstance(p, S.UpgradedParameter) for p in got.parameters.values()), info)
                if route == 'sigtools.signature':
                    result = got
        else:
            ctx.require('raises-the-same-exception-type', gerr is not None and type(gerr) is type(werr), info)
    return result


def _narrowing(ctx, R, own_sig, label, real=None):
    with sym.notrace():
        rs = shape_of(R)
        own = shape_of(own_sig, real=real)
        qn = all_names([own, rs])
        if len(qn) > 14:
            ctx.count('too-many-names-for-narrowing')
            return
        nc = NonColl(rs.kwable, own.named)
    ctx.nontrivial = True
    ctx.refute('only-narrows-own-signature', qn, And(Acc(rs), nc, Not(Acc(own))),
               lambda: dict(object=label, reported=str(R), own=str(own_sig)))


def h_constructs(ctx, cfg):
    if sym.flip('object-table'):
        idx = sym.pick(len(OBJECTS), 'obj')
        with sym.notrace():
            label, make = OBJECTS[idx]
            ctx.case('object ' + label, nontrivial=False)
            obj = make()
        R = _totality(ctx, obj, label)
        if R is not None:
            ctx.nontrivial = True
        return
    body_idx = sym.pick(len(BODIES), 'body')
    kind = KINDS[sym.pick(len(KINDS), 'kind')]
    with_site = sym.flip('site')
    with_params = sym.flip('params')
    second = sym.pick(len(BODIES) + 1, 'second') if cfg.get('pairs') else len(BODIES)
    with sym.notrace():
        label = '%s %s%s%s%s' % (kind, BODIES[body_idx][0], ' +site' if with_site else '', ' +params' if with_params else '',
                                 (' +' + BODIES[second][0]) if second < len(BODIES) else '')
        ctx.case('construct ' + label, nontrivial=False)
        if second < len(BODIES):
            b2 = BODIES[second][1].replace('SITE', '0')
            b2 = 'if len(args) > 10 ** 9:\n' + '\n'.join(('\x00' + l[1:] if l.startswith('\x00') else ('    ' + l if l else l)) for l in b2.split('\n'))
            saved = BODIES[body_idx]
            BODIES[body_idx] = (saved[0], b2 + '\n' + saved[1])
            try:
                obj, deflist = _construct(body_idx, kind, with_site, with_params)
            except SyntaxError:
                ctx.count('pair-does-not-compile')
                return
            finally:
                BODIES[body_idx] = saved
        else:
            obj, deflist = _construct(body_idx, kind, with_site, with_params)
    R = _totality(ctx, obj, label)
    if R is None:
        return
    with sym.notrace():
        own = inspect.signature(obj)
    _narrowing(ctx, R, own, label, real=None)


# ------------------------------------------------------------------ (b) corpus

QUICK_MODULES = ['json', 'json.decoder', 'json.encoder', 'logging', 'textwrap', 'functools', 'contextlib', 'shlex', 'fnmatch',
                 'heapq', 'copy', 'pprint', 'string', 'argparse', 'sigtools.signatures', 'sigtools.specifiers',
                 'sigtools.modifiers', 'sigtools.wrappers', 'sigtools.support', 'sigtools._util', 'sigtools._autoforwards']
THOROUGH_MODULES = QUICK_MODULES + [
    'abc', 'ast', 'asyncio.base_events', 'asyncio.tasks', 'base64', 'bisect', 'calendar', 'cmd', 'code', 'codecs', 'collections',
    'concurrent.futures', 'configparser', 'csv', 'dataclasses', 'datetime', 'decimal', 'difflib', 'dis', 'email.message',
    'email.utils', 'enum', 'filecmp', 'fractions', 'ftplib', 'getopt', 'gettext', 'glob', 'gzip', 'hashlib', 'hmac', 'html',
    'http.client', 'http.cookies', 'imaplib', 'inspect', 'io', 'ipaddress', 'itertools', 'keyword', 'linecache', 'locale',
    'logging.handlers', 'mailbox', 'mimetypes', 'numbers', 'operator', 'optparse', 'os', 'os.path', 'pathlib', 'pickle',
    'pkgutil', 'platform', 'plistlib', 'posixpath', 'queue', 'random', 're', 'reprlib', 'sched', 'secrets', 'selectors',
    'shutil', 'signal', 'smtplib', 'socket', 'socketserver', 'sqlite3', 'ssl', 'stat', 'statistics', 'struct', 'subprocess',
    'tarfile', 'tempfile', 'threading', 'timeit', 'tokenize', 'traceback', 'types', 'typing', 'unittest.case', 'unittest.mock',
    'urllib.parse', 'urllib.request', 'uuid', 'warnings', 'weakref', 'xml.dom.minidom', 'xml.etree.ElementTree', 'zipfile',
    'attr', 'pytest', '_pytest.python', 'docutils.nodes', 'sphinx.application', 'sphinx.ext.autodoc', 'jinja2.environment',
    'pygments.lexer', 'packaging.version']

_corpus_cache = {}


def corpus(modules):
    key = tuple(modules)
    if key in _corpus_cache:
        return _corpus_cache[key]
    out = []
    seen = set()
    for mname in modules:
        try:
            mod = importlib.import_module(mname)
        except Exception:
            continue
        for name in sorted(vars(mod)):
            obj = vars(mod)[name]
            if name.startswith('__') or isinstance(obj, types.ModuleType):
                continue
            if getattr(obj, '__module__', mname) != mname and not callable(obj):
                continue
            if callable(obj) and id(obj) not in seen:
                seen.add(id(obj))
                out.append(('%s.%s' % (mname, name), obj))
            if isinstance(obj, type) and getattr(obj, '__module__', None) == mname:
                for an in sorted(vars(obj)):
                    member = vars(obj)[an]
                    if an.startswith('__') and an not in ('__init__', '__call__', '__new__'):
                        continue
                    if isinstance(member, (staticmethod, classmethod)):
                        member = member.__func__
                    if callable(member) and id(member) not in seen:
                        seen.add(id(member))
                        out.append(('%s.%s.%s' % (mname, name, an), member))
    _corpus_cache[key] = out
    return out


def h_corpus(ctx, cfg):
    with sym.notrace():
        items = corpus(THOROUGH_MODULES if cfg.get('thorough') else QUICK_MODULES)
    idx = sym.pick(len(items), 'idx')
    with sym.notrace():
        label, obj = items[idx]
        ctx.case('corpus ' + label, nontrivial=False)
        ctx.count('corpus_callables')
        # the retrieval itself runs untraced here: the corpus member is concrete, the solver decides the calls
        R = _totality(ctx, obj, label)
        if R is None:
            return
        plain_kind = isinstance(obj, (types.FunctionType, types.MethodType)) and not (
            hasattr(obj, '__wrapped__') or hasattr(obj, '__signature__') or hasattr(obj, '_sigtools__forger'))
        if plain_kind:
            own = inspect.signature(obj)
    if plain_kind:
        _narrowing(ctx, R, own, label)


# ------------------------------------------------------------------ (c) sphinx hook

def h_sphinx(ctx, cfg):
    from fixtures import sphinx_fixture as fx
    idx = sym.pick(len(fx.NAMES), 'name')
    with sym.notrace():
        name = fx.NAMES[idx]
        ctx.case('sphinx ' + name, nontrivial=True)
        from sigtools import sphinxext
        full = 'fixtures.sphinx_fixture.' + name
    try:
        ret = sphinxext.process_signature(None, 'function', full, None, {}, '(orig)', 'origret')
    except Exception as e:
        ctx.require('hook-does-not-raise', False, lambda: dict(name=name, exc=repr(e)))
        return
    info = lambda: dict(name=name, got=repr(ret))
    ctx.require('hook-returns-two-strings', isinstance(ret, tuple) and len(ret) == 2 and
                all(isinstance(x, str) for x in ret), info)
    # independent expectation for objects inspect can handle
    try:
        obj = fx
        parent = None
        for part in name.split('.'):
            parent, obj = obj, getattr(obj, part)
    except AttributeError:
        ctx.require('hook-passes-through-when-not-found', ret == ('(orig)', 'origret'), info)
        return
    if not callable(obj):
        return
    if isinstance(parent, type) and callable(obj):
        from sigtools import _util
        obj = _util.safe_get(obj, object(), type(parent))
    try:
        sig = sigtools.signature(obj).evaluated()
    except (TypeError, ValueError, AttributeError):
        ctx.require('hook-passes-through-when-no-signature', ret == ('(orig)', 'origret'), info)
        return
    want_ret = '' if sig.return_annotation is sig.empty else repr(sig.return_annotation)
    want_sig = str(sig.replace(return_annotation=sig.empty))
    ctx.require('hook-returns-evaluated-signature', ret == (want_sig, want_ret),
                lambda: dict(info(), want=(want_sig, want_ret)))
    ctx.require('hook-signature-has-no-string-annotations-left',
                all(not isinstance(p.annotation, str) or p.annotation in ('x',) for p in sig.parameters.values()), info)


def plan(tier):
    if tier == 'quick':
        return [
            dict(name='constructs-pairs', fn='h_constructs', depth=9, budget_s=300, cfg=dict(pairs=True),
                 bounds='every single and every ordered pair of 55 statement constructs x 7 function kinds x with/without forwarding call x with/without own parameters; 65 special objects (mock-like catch-all __getattr__ objects, methods forwarding a star attribute and factory-made closures included)',
                 min_nontrivial=300, must_reach=['returns-whenever-inspect-does', 'raises-the-same-exception-type',
                                                 'only-narrows-own-signature']),
            dict(name='corpus-quick', fn='h_corpus', depth=8, budget_s=300, cfg=dict(thorough=False),
                 bounds='every callable reachable from 21 modules (12 stdlib + sigtools\' own API), finite corpus',
                 min_nontrivial=200, must_reach=['only-narrows-own-signature']),
            dict(name='sphinx-hook', fn='h_sphinx', depth=4, budget_s=120, cfg=dict(),
                 bounds='27 documentable names of the fixture module (functions, methods, classes, postponed annotations, forged signatures, non-callables, missing)',
                 min_nontrivial=20, must_reach=['hook-returns-evaluated-signature']),
        ]
    return [
        dict(name='constructs-pairs', fn='h_constructs', depth=10, budget_s=2400, cfg=dict(pairs=True),
             bounds='every pair of the 55 statement constructs x 7 function kinds x site x parameters; 65 special objects (mock-like catch-all __getattr__ objects, methods forwarding a star attribute and factory-made closures included)', min_nontrivial=300),
        dict(name='corpus-thorough', fn='h_corpus', depth=10, budget_s=3000, cfg=dict(thorough=True),
             bounds='every callable reachable from ~120 importable modules (stdlib, packages installed in /venv, sigtools)', min_nontrivial=1000),
        dict(name='sphinx-hook', fn='h_sphinx', depth=4, budget_s=120, cfg=dict(), bounds='27 documentable names of the fixture module',
             min_nontrivial=20),
    ]
