"""C05 — automatic discovery never reports a signature the function cannot honour."""
import itertools

import sigtools
from sigtools import _signatures as S

from symx import sym, universe as U, progs
from harness.common import *
from harness import c06 as _c06

PROPERTY = 'C05'
LEVEL = 'model_checking'
RULE = ('each CrossHair path derives one program of the forwarding grammar (see C06) and retrieves sigtools.signature of the '
        'real function object; distinct = distinct program text; non-trivial = the reported signature differs from the plain '
        'one, i.e. a soundness obligation was discharged by z3')
EXPLANATION = ('If the reported signature is not the plain one: for pristine stars z3 decides over all call shapes that '
               'Accept(R,c) & NonColl & ~Exec(program,c) is unsat, Exec being acceptance by the wrapper\'s def-list and by '
               'the callee of what every forwarding call passes; for tainted / foreign / doubled stars the callee\'s '
               'corresponding parameters must not be advertised (checked on provenance) and soundness is required with the '
               'contents of that star existentially quantified (finite expansion). Witnesses are replayed by really calling '
               'the generated function.')
OUTSIDE = 'programs not derivable from the grammar; more than two forwarding calls; exec/eval-built calls'
ASSUMPTIONS = ['generated bodies cannot raise TypeError themselves, so a TypeError from a real call is an argument-binding error',
               'a taint placed after the call in execution order, and handing the immutable *args tuple to other code, leave the star pristine']


def _hidden_sites(p):
    """Alternatives for what the call passes when a star is tainted / foreign / doubled: its contents are
    existentially quantified (finite expansion)."""
    site0 = p.sites[0][0]
    cal = p.callee
    va_bad = p.star_forms['va'] in ('tainted', 'foreign', 'doubled')
    vk_bad = p.star_forms['vk'] in ('tainted', 'foreign', 'doubled')
    hs = range(cal.npos + 2) if va_bad else [None]
    kwable = sorted(cal.kwable)
    if vk_bad:
        Hs = [c for r in range(len(kwable) + 1) for c in itertools.combinations(kwable, r)]
        Hs = [h + (progs.FOREIGN_KW + '2',) for h in Hs] + Hs
    else:
        Hs = [None]
    alts = []
    for h in hs:
        for H in Hs:
            k = site0.k + (h or 0)
            names = tuple(site0.names) + tuple(x for x in (H or ()) if x not in site0.names)
            use_va = site0.use_va and not va_bad
            use_vk = site0.use_vk and not vk_bad
            alts.append(Site(k, names, use_va, use_vk))
    return alts


def h_sound(ctx, cfg):
    p = progs.draw(cfg)
    with sym.notrace():
        ctx.case(p.text, nontrivial=False)
        progs.build(p)
        for ft in p.features:
            ctx.count('prod:' + ft)
    f = p.objs['f']
    try:
        with sym.concrete():
            R = sigtools.signature(f)
    except Exception as e:
        ctx.require('discovery-does-not-raise', False, lambda: dict(exc=repr(e), features=p.label()))
        return
    with sym.concrete():
        B = S.signature(f)
    info = lambda: dict(discovered=str(R), plain=str(B), features=p.label())
    if params_key(R) == params_key(B):
        ctx.count('reported-plain')
        return
    ctx.count('reported-refined')
    ctx.nontrivial = True
    if not ctx.require('unresolvable-falls-back', p.resolvable, info):
        return
    with sym.notrace():
        o = p.outer; cal = p.callee
        rs = shape_of(R)
        qn = all_names([o, cal, rs])
        for nm in p.decl['names']:
            if nm not in qn:
                qn += (nm,)
        if progs.FOREIGN_KW not in qn:
            qn += (progs.FOREIGN_KW,)
        bound = tuple(o.named) + tuple(cal.named) + tuple(p.decl['names'])
        nc = NonColl(rs.kwable, bound)
        pristine = all(v in ('pristine', 'absent') for v in p.star_forms.values())
    if pristine:
        ex = Exec(o, p.sites, real=o.real)
        ctx.refute('sound', qn, And(Acc(rs), nc, Not(ex)), info)
        return
    # ---- tainted / foreign / doubled star(s)
    ctx.count('tainted-program')
    with sym.notrace():
        callee_obj = p.objs['callee']
        wrapper_objs = [p.objs['f'], p.objs['wrapper']]
        bad = []
        for prm in R.parameters.values():
            srcs = R.sources.get(prm.name, [])
            from_callee = any(s == callee_obj for s in srcs) and not any(any(s is w for w in wrapper_objs) for s in srcs)
            if not from_callee:
                continue
            if p.star_forms['vk'] in ('tainted', 'foreign', 'doubled') and prm.kind in (
                    prm.POSITIONAL_OR_KEYWORD, prm.KEYWORD_ONLY, prm.VAR_KEYWORD):
                bad.append(prm.name)
            if p.star_forms['va'] in ('tainted', 'foreign', 'doubled') and prm.kind in (
                    prm.POSITIONAL_ONLY, prm.POSITIONAL_OR_KEYWORD, prm.VAR_POSITIONAL):
                bad.append(prm.name)
    ctx.require('tainted-star-not-advertised', not bad, lambda: dict(info(), advertised=bad))
    with sym.notrace():
        alts = [Exec(o, [(s, cal)] * p.n_sites) for s in _hidden_sites(p)]
    if ctx.impossible(qn, Or(*alts)):
        # the written call can never succeed whatever the star holds: every signature (the plain one included)
        # advertises failing calls, nothing is demanded
        ctx.count('never-callable-program')
        return
    ctx.refute('sound-for-some-hidden-contents', qn, And(Acc(rs), nc, Not(Or(*alts))), info)


def plan(tier):
    if tier == 'quick':
        return [
            dict(name='grammar-quick', fn='h_sound', depth=10, budget_s=900, cfg=_c06.QUICK, bounds=_c06.QUICK_BOUNDS,
                 min_nontrivial=500, must_reach=['sound', 'tainted-star-not-advertised', 'sound-for-some-hidden-contents']),
            dict(name='posonly-outer', fn='h_sound', depth=8, budget_s=120,
                 cfg=dict(groups=['contexts'], Ko=1, Kc=1, kmax=0, nmax=0, route_list=['self', 'param-partial'],
                          ctx_list=['return', 'nested-def']),
                 bounds='outer with <=1 named parameter (positional-only included) x routes self / param-partial x return / nested def',
                 min_nontrivial=100),
            dict(name='deferred-call-arguments', fn='h_sound', depth=8, budget_s=180,
                 cfg=dict(groups=['full'], Ko=0, Kc=1, kmax=1, nmax=0, form_list=['pristine'], route_list=['global'],
                          ctx_list=['nested-def', 'lambda', 'listcomp', 'genexp', 'nested-shadow-va-posonly',
                                    'nested-shadow-kw-kwonly']),
                 bounds='5 argument expressions (constant, kwargs.pop, hand-off, len(args), walrus) as the fixed positional of a call deferred into a nested def / lambda / comprehension (6 contexts), pristine stars, callee <=1 named',
                 min_nontrivial=100),
        ]
    return [
        dict(name='grammar-thorough', fn='h_sound', depth=12, budget_s=3300, cfg=_c06.THOROUGH,
             bounds='the four focus groups with outer <=1 named, callee <=2 named (shapes) / <=1 (others), <=2 fixed positionals, <=2 keyword names; time-limited',
             min_nontrivial=500),
        dict(name='grammar-full-cross', fn='h_sound', depth=12, budget_s=1500,
             cfg=dict(groups=['full'], Ko=0, Kc=1, kmax=1, nmax=1),
             bounds='full cross product of all dimensions with bare outer and callee <=1 named (time-limited)', min_nontrivial=500),
    ]
