"""C18 — decorator application order and repeated use do not change the result; no lifetime extension."""
import gc
import itertools
import weakref

import sigtools
from sigtools import modifiers, specifiers, wrappers

from symx import sym, universe as U
from harness.common import *
from harness.algebra import *

PROPERTY = 'C18'
LEVEL = 'model_checking'
RULE = ('order harness: each CrossHair path decodes a function from U(K) with all parameters positional-or-keyword, a set of '
        'modifier applications (kwoargs / posoargs selections, autokwoargs, annotate) and a call shape with SYMBOLIC values; '
        'every permutation of the applications in which each step is admissible is built for real and compared. history '
        'harness: each path decodes a descriptor kind and a sequence of <=L operations over {retrieve on instance i, '
        'retrieve on class, call on instance i, access twice, stack another modifier on the method, drop instance i + gc.collect()} on two instances; distinct = '
        'distinct rendered instance; non-trivial = at least two admissible orders / at least one operation checked')
EXPLANATION = ('The solver enumerates the histories / decorator sets exhaustively within the bound; call results are compared on '
               'symbolic argument values (z3 validity). Reclamation is observed with weak references after gc.collect(), with '
               'a control class without sigtools decorators that must always be reclaimed (else the run is inconclusive).')
OUTSIDE = 'histories longer than the bound; more than two instances; functions with more parameters than the bound'
ASSUMPTIONS = ['CrossHair keeps no stray strong references to harness objects when the liveness check runs untraced '
               '(checked on every path through the control class)']


# ------------------------------------------------------------------ (a) order independence

def _apply(kind, arg, fn):
    if kind == 'kwoargs':
        return modifiers.kwoargs(*arg)(fn)
    if kind == 'posoargs':
        return modifiers.posoargs(*arg)(fn)
    if kind == 'autokwoargs':
        return modifiers.autokwoargs(fn)
    return modifiers.annotate(**arg)(fn)


def h_order(ctx, cfg):
    K = cfg['K']
    nparams = 1 + sym.pick(K, 'np')
    va = sym.flip('va'); vk = sym.flip('vk')
    first_default = sym.pick(nparams + 1, 'fd')
    spec = U.Spec([1] * nparams, [i >= first_default for i in range(nparams)], va, vk)
    spec.names = tuple(U.POOL[:nparams])
    kwo = tuple(nm for nm in spec.names if sym.flip('kwo'))
    po = tuple(nm for nm in spec.names if nm not in kwo and sym.flip('po'))
    auto = sym.flip('auto')
    ann_name = spec.names[sym.pick(nparams, 'ann')] if sym.flip('hasann') else None
    n = sym.pick(nparams + 2, 'n')
    kws = tuple(nm for nm in list(spec.names) + ([FOREIGN_NAME] if cfg.get('foreign_kw', True) else []) if sym.flip('kw'))
    V = sym.sym_val('V')
    avals = [sym.sym_val('av') for _ in range(n)]
    kvals = dict((nm, sym.sym_val('kv')) for nm in kws)
    apps = []
    if kwo:
        apps.append(('kwoargs', kwo))
    if po:
        apps.append(('posoargs', po))
    if auto:
        apps.append(('autokwoargs', None))
    if ann_name:
        apps.append(('annotate', {ann_name: V}))
    with sym.notrace():
        ctx.case('order %r apps=%s call n=%d kw={%s}' % (
            spec, ' '.join('%s(%s)' % (k, ','.join(a) if isinstance(a, tuple) else (ann_name if a else ''))
                           for k, a in apps), n, ','.join(kws)), nontrivial=False)
    if len(apps) < 2 or len(apps) > cfg.get('max_apps', 4):
        return
    values = dict((nm, str(100 + i)) for i, nm in enumerate(spec.names))
    results = []
    for perm in itertools.permutations(range(len(apps))):
        with sym.notrace():
            fn = U.make_function(spec.deflist(values=values), name='f')
        obj = fn
        ok = True
        for idx in perm:
            try:
                obj = _apply(apps[idx][0], apps[idx][1], obj)
            except ValueError:
                ok = False
                break
        if not ok:
            continue
        sig = sigtools.signature(obj)
        try:
            ret, err = obj(*avals, **kvals), None
        except TypeError as e:
            ret, err = None, e
        results.append((perm, sig, ret, err))
    ctx.count('admissible-orders:%d' % len(results))
    if len(results) < 2:
        return
    ctx.nontrivial = True
    p0, s0, r0, e0 = results[0]
    for perm, sig, ret, err in results[1:]:
        info = lambda: dict(order_a=[apps[i][0] for i in p0], order_b=[apps[i][0] for i in perm],
                            sig_a=str(s0), sig_b=str(sig))
        ctx.require('same-signature-in-any-order', [(p.name, int(p.kind)) for p in sig.parameters.values()] ==
                    [(p.name, int(p.kind)) for p in s0.parameters.values()] and
                    all(sig.parameters[k].default == s0.parameters[k].default and
                        (sig.parameters[k].annotation is sig.empty) == (s0.parameters[k].annotation is s0.empty) and
                        (sig.parameters[k].annotation is sig.empty or sig.parameters[k].annotation == s0.parameters[k].annotation)
                        for k in s0.parameters), info)
        if ctx.require('same-acceptance-in-any-order', (err is None) == (e0 is None), info) and err is None:
            ctx.require('same-result-in-any-order', set(ret) == set(r0) and all(ret[k] == r0[k] for k in r0), info)
    if ann_name:
        for perm, sig, ret, err in results:
            ctx.require('annotate-visible-through-translators', sig.parameters[ann_name].annotation == V and
                        sig.parameters[ann_name].upgraded_annotation.source_value() == V,
                        lambda: dict(order=[apps[i][0] for i in perm], sig=str(sig)))


# ------------------------------------------------------------------ (b) histories

KINDS = ('control', 'pok', 'forger', 'forger-emulated', 'simple', 'wrapped')

_SRC = '''
from sigtools import modifiers, specifiers, wrappers

@wrappers.decorator
def _deco(func, *args, flag=0, **kwargs):
    return func(*args, **kwargs)

@wrappers.wrapper_decorator
def _wdeco(func, *args, flag=0, **kwargs):
    return func(*args, **kwargs)

def _identity(f):
    return f

class C(object):
    def __init__(self, tag):
        self.tag = tag
    EQUALITY
    def target(self, x, y=2):
        return ('target', self.tag, x, y)
    @DECO
    def m(self, a, *args, **kwargs):
        return ('m', self.tag, a) + self.target(*args, **kwargs)
'''

# the modifiers kind has a second convertible parameter so that a translator can be stacked on an existing one later
_SRC_POK = '''
from sigtools import modifiers

class C(object):
    def __init__(self, tag):
        self.tag = tag
    EQUALITY
    def target(self, x, y=2):
        return ('target', self.tag, x, y)
    DECO
    def m(self, a, b=9, *args, **kwargs):
        return ('m', self.tag, a, b) + self.target(*args, **kwargs)
'''

_DECOS = {
    'control': '_identity',
    'pok': "modifiers.kwoargs('a')",
    'forger': "specifiers.forwards_to_method('target')",
    'forger-emulated': "specifiers.forwards_to_method('target', emulate=True)",
    'simple': '_deco',
    'wrapped': '_wdeco',
}


_EQ = 'def __eq__(self, other):\n        return type(other) is type(self)\n    def __hash__(self):\n        return 7'


def _make_class(kind, stacked=False, equal=False):
    import linecache
    if kind == 'pok':
        src = _SRC_POK.replace('DECO', ("@modifiers.kwoargs('b')\n    " if stacked else '') + "@modifiers.kwoargs('a')")
    else:
        src = _SRC.replace('DECO', _DECOS[kind])
    src = src.replace('EQUALITY', _EQ if equal else 'pass_through = None')
    fname = '<symx-c18-%s-%d>' % (kind, equal)
    linecache.cache[fname] = (len(src), None, src.splitlines(True), fname)
    ns = {'__name__': 'c18_' + kind.replace('-', '_')}
    exec(compile(src, fname, 'exec'), ns)
    return ns['C']


OPS = ('sig', 'call', 'twice', 'drop', 'redecorate')


def _call_args(kind):
    # m(self, a, *args, **kwargs) -> target(x, y=2); 'pok' makes a keyword-only
    if kind == 'pok':
        return (), {'a': 5, 'x': 7}
    return (5, 7), {}


def _retag(ret, tag):
    """Expected result for instance ``tag`` from the reference instance's (tag 9)."""
    return tuple(tag if x == 9 and idx in (1, len(ret) - 3) else x for idx, x in enumerate(ret))


def h_history(ctx, cfg):
    kind = KINDS[sym.pick(len(KINDS), 'kind')]
    equal = sym.flip('equal-instances') if (cfg.get('equal_instances', True) and kind == 'pok') else False
    L = cfg['L']
    steps = []
    for _ in range(L):
        if steps and not sym.flip('more'):
            break
        op = OPS[sym.pick(len(OPS), 'op')]
        if op == 'sig' and sym.flip('oncls'):
            steps.append(('sigcls', None))
        else:
            steps.append((op, sym.pick(2, 'inst')))
    with sym.notrace():
        ctx.case('%s%s: %s' % (kind, ' (instances compare equal)' if equal else '', ' '.join('%s%s' % (o, '' if i is None else i) for o, i in steps)), nontrivial=True)
        cls = _make_class(kind, equal=equal)
        refs_by_state = {}
        for stacked in ((False, True) if kind == 'pok' else (False,)):
            ref_cls = _make_class(kind, stacked, equal=equal)
            ref_inst = ref_cls(9)
            a0, k0 = _call_args(kind)
            try:
                cls_sig = str(sigtools.signature(ref_cls.m))
            except Exception as e:
                cls_sig = e
            refs_by_state[stacked] = (str(sigtools.signature(ref_inst.m)), cls_sig, ref_inst.m(*a0, **k0))
            del ref_inst
        redecorated = False
        want_sig, want_cls_sig, want_ret9 = refs_by_state[False]
        insts = {0: cls(0), 1: cls(1)}
        refs = dict((i, weakref.ref(o)) for i, o in insts.items())
    args, kwargs = _call_args(kind)
    for pos, (op, i) in enumerate(steps):
        info = lambda: dict(step=pos, op=op, inst=i, kind=kind)
        if op == 'redecorate':
            if kind != 'pok' or redecorated:
                ctx.count('redecorate-skipped')
                continue
            cls.m = modifiers.kwoargs('b')(cls.__dict__['m'])
            redecorated = True
            want_sig, want_cls_sig, want_ret9 = refs_by_state[True]
            continue
        if op == 'sigcls':
            try:
                got = str(sigtools.signature(cls.m))
            except Exception as e:
                got = e
            if ctx.require('class-retrieval-does-not-raise', not isinstance(got, Exception) and
                           not isinstance(want_cls_sig, Exception),
                           lambda: dict(info(), got=repr(got), fresh=repr(want_cls_sig),
                                        emulated_forger_read_from_class=(kind == 'forger-emulated'))):
                ctx.require('class-retrieval-history-free', got == want_cls_sig,
                            lambda: dict(info(), got=got, want=want_cls_sig))
            continue
        if i not in insts:
            ctx.count('op-on-dropped-instance-skipped')
            continue
        if op == 'sig':
            got = str(sigtools.signature(insts[i].m))
            ctx.require('retrieval-history-free', got == want_sig, lambda: dict(info(), got=got, want=want_sig))
        elif op == 'call':
            ret = insts[i].m(*args, **kwargs)
            ctx.require('call-bound-to-right-instance', ret == _retag(want_ret9, i),
                        lambda: dict(info(), got=repr(ret)))
        elif op == 'twice':
            b1 = insts[i].m; b2 = insts[i].m
            r1 = b1(*args, **kwargs); r2 = b2(*args, **kwargs)
            ctx.require('repeated-binding-equal', r1 == r2 == _retag(want_ret9, i) and
                        str(sigtools.signature(b1)) == str(sigtools.signature(b2)) == want_sig, info)
            del b1, b2, r1, r2
        else:
            with sym.notrace():
                del insts[i]
                gc.collect()
                alive = refs[i]() is not None
            ctx.require('instance-reclaimed-after-drop', not alive,
                        lambda: dict(info(), touched_before=[s for s in steps[:pos] if s[1] == i],
                                     modifiers_wrapped_method=(kind == 'pok')))
    with sym.notrace():
        insts.clear()
        gc.collect()
        left = [i for i, r in refs.items() if r() is not None]
    ctx.require('all-instances-reclaimed-at-end', not left,
                lambda: dict(alive=left, kind=kind, modifiers_wrapped_method=(kind == 'pok')))
    if kind == 'control' and left:
        raise RuntimeError('control class instance not reclaimed: the liveness observation is unreliable')


_SRC_OWNER = """
from sigtools import modifiers, specifiers, wrappers

@wrappers.decorator
def _deco(func, *args, flag=0, **kwargs):
    return func(*args, **kwargs)

@wrappers.wrapper_decorator
def _wdeco(func, *args, flag=0, **kwargs):
    return func(*args, **kwargs)

def _identity(f):
    return f

def target(x, y=2):
    return ('target', x, y)

class C(object):
    @DECO
    BIND
    def m(FIRSTa, *args, **kwargs):
        return ('m', a) + target(*args, **kwargs)

class Sub(C):
    pass
"""
OWNER_DECOS = dict(_DECOS, forger="specifiers.forwards_to_function(target)",
                   **{'forger-emulated': "specifiers.forwards_to_function(target, emulate=True)"})
BINDINGS = (('classmethod', '@classmethod', 'cls, '), ('staticmethod', '@staticmethod', ''))
VIAS = ('instance', 'class', 'subclass', 'subclass-instance')


def _make_owner_class(kind, binding):
    import linecache
    b = dict((x[0], x) for x in BINDINGS)[binding]
    src = _SRC_OWNER.replace('DECO', OWNER_DECOS[kind]).replace('BIND', b[1]).replace('FIRST', b[2])
    fname = '<symx-c18-owner-%s-%s>' % (kind, binding)
    linecache.cache[fname] = (len(src), None, src.splitlines(True), fname)
    ns = {'__name__': 'c18_owner'}
    exec(compile(src, fname, 'exec'), ns)
    return ns


def _lookup(ns, via):
    if via == 'instance':
        return ns['C']().m
    if via == 'class':
        return ns['C'].m
    if via == 'subclass':
        return ns['Sub'].m
    return ns['Sub']().m


def h_owners(ctx, cfg):
    """Decorators stacked over classmethod / staticmethod: what is found through an instance, the class, a subclass
    or a subclass instance is the same method (binding does not depend on the route), so signatures and results of
    all routes agree, in any order of look-ups."""
    kind = KINDS[sym.pick(len(KINDS), 'kind')]
    binding = BINDINGS[sym.pick(len(BINDINGS), 'binding')][0]
    steps = []
    for _ in range(cfg['L']):
        if steps and not sym.flip('more'):
            break
        steps.append((VIAS[sym.pick(len(VIAS), 'via')], ('sig', 'call')[sym.pick(2, 'op')]))
    args, kwargs = _call_args(kind)
    with sym.notrace():
        ctx.case('%s over %s: %s' % (kind, binding, ' '.join('%s:%s' % s for s in steps)), nontrivial=False)
        try:
            ref_ns = _make_owner_class(kind, binding)
            ns = _make_owner_class(kind, binding)
        except Exception as e:
            ctx.count('decoration-raised:%s' % type(e).__name__)
            return
        try:
            ref = _lookup(ref_ns, 'instance')
            want_sig = str(sigtools.signature(ref))
            want_ret = ref(*args, **kwargs)
        except Exception as e:
            ctx.count('instance-route-raised:%s' % type(e).__name__)
            return
    ctx.nontrivial = True
    ctx.require('result-is-the-undecorated-call', want_ret == ('m', 5, 'target', 7, 2), lambda: dict(got=repr(want_ret)))
    for pos, (via, op) in enumerate(steps):
        info = lambda: dict(step=pos, via=via, op=op, kind=kind, binding=binding)
        try:
            obj = _lookup(ns, via)
            got = str(sigtools.signature(obj)) if op == 'sig' else obj(*args, **kwargs)
        except Exception as e:
            ctx.require('every-route-works', False, lambda: dict(info(), exc=repr(e)))
            continue
        if op == 'sig':
            ctx.require('same-signature-through-every-route', got == want_sig, lambda: dict(info(), got=got, want=want_sig))
        else:
            ctx.require('same-result-through-every-route', got == want_ret, lambda: dict(info(), got=repr(got)))


def plan(tier):
    if tier == 'quick':
        return [
            dict(name='order-K2', fn='h_order', depth=9, budget_s=900, cfg=dict(K=2, max_apps=3, foreign_kw=False),
                 bounds='functions with 1..2 positional-or-keyword parameters (default/star variants) x kwoargs/posoargs selections x autokwoargs x annotate(one parameter) x all permutations of 2..3 applications x calls n<=len+1, every keyword subset of the parameter names; symbolic values',
                 min_nontrivial=300, must_reach=['same-signature-in-any-order', 'same-result-in-any-order',
                                                 'annotate-visible-through-translators']),
            dict(name='history-L3', fn='h_history', depth=8, budget_s=900, cfg=dict(L=3),
                 bounds='6 descriptor kinds (control, _PokTranslator, _ForgerWrapper plain/emulated, _SimpleWrapped, _Wrapped) x histories of <=3 operations over 2 instances',
                 min_nontrivial=300, must_reach=['retrieval-history-free', 'call-bound-to-right-instance',
                                                 'instance-reclaimed-after-drop', 'repeated-binding-equal']),
            dict(name='owners-L2', fn='h_owners', depth=7, budget_s=120, cfg=dict(L=2),
                 bounds='6 descriptor kinds stacked over classmethod / staticmethod x sequences of <=2 look-ups (signature or call) through instance / class / subclass / subclass instance',
                 min_nontrivial=300, must_reach=['same-signature-through-every-route', 'same-result-through-every-route']),
        ]
    return [
        dict(name='order-K3', fn='h_order', depth=10, budget_s=3000, cfg=dict(K=3),
             bounds='functions with 1..3 positional-or-keyword parameters x kwoargs/posoargs selections x autokwoargs x annotate x all permutations x calls',
             min_nontrivial=300),
        dict(name='history-L5', fn='h_history', depth=10, budget_s=3000, cfg=dict(L=5),
             bounds='6 descriptor kinds x histories of <=5 operations over 2 instances', min_nontrivial=300),
        dict(name='owners-L4', fn='h_owners', depth=9, budget_s=600, cfg=dict(L=4),
             bounds='6 descriptor kinds over classmethod / staticmethod x sequences of <=4 look-ups through 4 routes', min_nontrivial=300),
    ]
