"""C15 — merge/embed/mask/forwards either return a well-formed UpgradedSignature or raise ValueError
(IncompatibleSignatures from merge/embed on role-consistent inputs); plain inspect inputs give the
same parameters plus a DeprecationWarning."""
import warnings

from sigtools import _signatures as S

from symx import sym, universe as U
from harness.common import *
from harness.algebra import *

PROPERTY = 'C15'
LEVEL = 'model_checking'
RULE = ('each CrossHair path decodes one operation instance: input signatures from U(K) (including '
        'role-inconsistent tuples), flags, num_args (symbolic, 0..len+2), names (foreign and duplicate ones '
        'included); the real operation is run on upgraded and on downgraded (plain inspect) inputs; distinct = '
        'distinct rendered instance; non-trivial = the operation returned a signature (which is then re-validated)')
EXPLANATION = ('Path exhaustion over the bounded space of operation instances; on every path the outcome of the real '
               'code must be a well-formed UpgradedSignature or a ValueError (IncompatibleSignatures where the '
               'property says so); num_args stays a z3 integer through the operation.')
OUTSIDE = 'signatures with more named parameters than the bound; more than three inputs; more than two names'
ASSUMPTIONS = []


def _run(fn):
    try:
        return fn(), None
    except Exception as e:      # noqa: the type is what is being checked
        return None, e


def _outcome(ctx, R, e, consistent, wrapped, info):
    if e is not None:
        ctx.count('raised')
        if not ctx.require('only-ValueError', isinstance(e, ValueError),
                           lambda: dict(info(), exc=repr(e))):
            return False
        if consistent and wrapped:
            ctx.require('IncompatibleSignatures-when-consistent', isinstance(e, S.IncompatibleSignatures),
                        lambda: dict(info(), exc=repr(e)))
        return False
    ctx.count('returned')
    ctx.nontrivial = True
    wf = well_formed(R)
    ctx.require('well-formed', wf is None, lambda: dict(info(), problem=wf, result=str(R)))
    return True


def _downgraded(ctx, call_plain, R, e, info):
    with warnings.catch_warnings(record=True) as w:
        warnings.simplefilter('always')
        R2, e2 = _run(call_plain)
    cats = [x.category for x in w]
    ctx.require('plain-same-outcome', (e is None) == (e2 is None) and
                (e2 is None or isinstance(e2, ValueError)),
                lambda: dict(info(), upgraded=repr(e) if e else str(R), plain=repr(e2) if e2 else str(R2)))
    ctx.require('plain-warns', any(issubclass(c, DeprecationWarning) for c in cats),
                lambda: dict(info(), warnings=repr(cats)))
    if e2 is None:
        wf2 = well_formed(R2)
        ctx.require('plain-result-well-formed', wf2 is None, lambda: dict(info(), problem=wf2, result=str(R2)))
    if e is None and e2 is None:
        ctx.require('plain-same-params', params_key(R, True) == params_key(R2, True),
                    lambda: dict(info(), upgraded=str(R), plain=str(R2)))


def h_merge(ctx, cfg):
    specs = U.gen_sigs(cfg['arity'], cfg['K'], cfg.get('total'), star_variants=cfg.get('stars', False))
    with sym.notrace():
        shapes = [s.shape() for s in specs]
        cons = role_consistent(shapes)
        ctx.case('merge ' + render_specs(specs), nontrivial=False)
        sigs = [U.sig_of(s, 'f%d' % j)[0] for j, s in enumerate(specs)]
        plains = [plain(x) for x in sigs]
    info = lambda: dict(consistent=cons)
    R, e = _run(lambda: S.merge(*sigs))
    _outcome(ctx, R, e, cons, True, info)
    _downgraded(ctx, lambda: S.merge(*plains), R, e, info)


def h_embed(ctx, cfg):
    specs = U.gen_sigs(cfg['arity'], cfg['K'], cfg.get('total'), star_variants=True)
    uva = sym.flip('uva'); uvk = sym.flip('uvk')
    with sym.notrace():
        shapes = [s.shape() for s in specs]
        cons = role_consistent(shapes)
        ctx.case('embed %s use_varargs=%d use_varkwargs=%d' % (render_specs(specs), uva, uvk), nontrivial=False)
        sigs = [U.sig_of(s, 'f%d' % j)[0] for j, s in enumerate(specs)]
        plains = [plain(x) for x in sigs]
    info = lambda: dict(consistent=cons)
    R, e = _run(lambda: S.embed(*sigs, use_varargs=uva, use_varkwargs=uvk))
    _outcome(ctx, R, e, cons, True, info)
    _downgraded(ctx, lambda: S.embed(*plains, use_varargs=uva, use_varkwargs=uvk), R, e, info)


def h_mask(ctx, cfg):
    spec = U.gen_sigs(1, cfg['K'])[0]
    names = draw_names(name_pool(spec, po=True), cfg.get('names', 2), dup=True)
    hides = draw_flags(('hide_args', 'hide_kwargs', 'hide_varargs', 'hide_varkwargs'))
    n = draw_num_args(spec)
    with sym.notrace():
        ctx.case('mask %r n=? names=%s %s' % (spec, ','.join(names) or '-', render_flags(hides)),
                 nontrivial=False, seal=True)
        sig = U.sig_of(spec, 'f0')[0]
        psig = plain(sig)
    info = lambda: dict(n=n)
    R, e = _run(lambda: S.mask(sig, n, *names, **hides))
    _outcome(ctx, R, e, True, False, info)
    _downgraded(ctx, lambda: S.mask(psig, n, *names, **hides), R, e, info)


def h_forwards(ctx, cfg):
    specs = U.gen_sigs(2, cfg['K'], cfg.get('total'), star_variants=cfg.get('stars', True))
    names = draw_names(name_pool(specs[1], po=True), cfg.get('names', 1), dup=True)
    fl = draw_forwards_flags(cfg.get('flagset', 'all'))
    n = draw_num_args(specs[1])
    with sym.notrace():
        ctx.case('forwards %s n=? names=%s %s' % (render_specs(specs), ','.join(names) or '-', render_flags(fl)),
                 nontrivial=False)
        sigs = [U.sig_of(s, 'f%d' % j)[0] for j, s in enumerate(specs)]
        plains = [plain(x) for x in sigs]
    info = lambda: dict(n=n)
    R, e = _run(lambda: S.forwards(sigs[0], sigs[1], n, *names, **fl))
    _outcome(ctx, R, e, True, False, info)
    _downgraded(ctx, lambda: S.forwards(plains[0], plains[1], n, *names, **fl), R, e, info)


def plan(tier):
    if tier == 'quick':
        return [
            dict(name='merge-pairs-total3', fn='h_merge', depth=8, budget_s=240, cfg=dict(arity=2, K=2, total=3),
                 bounds='merge: pairs, <=2 named each, <=3 in total (role-inconsistent included)', min_nontrivial=1000,
                 must_reach=['well-formed', 'only-ValueError', 'plain-same-params']),
            dict(name='embed-pairs-total2', fn='h_embed', depth=8, budget_s=240, cfg=dict(arity=2, K=2, total=2),
                 bounds='embed: pairs, <=2 named in total, 4 flag combinations, star-name variants',
                 min_nontrivial=1000, must_reach=['well-formed', 'only-ValueError']),
            dict(name='mask-K2', fn='h_mask', depth=8, budget_s=240, cfg=dict(K=2, names=1),
                 bounds='mask: <=2 named parameters, num_args 0..len+2, <=1 name (positional-only and foreign included), 16 hide combinations',
                 min_nontrivial=500, must_reach=['well-formed', 'only-ValueError']),
            dict(name='forwards-total1', fn='h_forwards', depth=8, budget_s=240,
                 cfg=dict(K=1, total=1, names=1, stars=False, flagset='lite'),
                 bounds='forwards: pairs, <=1 named in total, num_args 0..len+2, <=1 name, flags: all 16 hide/use combinations, partial only with hide flags off',
                 min_nontrivial=500, must_reach=['well-formed', 'only-ValueError']),
        ]
    return [
        dict(name='merge-pairs-K3-total5', fn='h_merge', depth=10, budget_s=1800, cfg=dict(arity=2, K=3, total=5),
             bounds='merge: pairs, <=3 named each, <=5 in total', min_nontrivial=1000),
        dict(name='merge-triples-total3', fn='h_merge', depth=10, budget_s=1200, cfg=dict(arity=3, K=2, total=3),
             bounds='merge: triples, <=3 named in total', min_nontrivial=1000),
        dict(name='embed-pairs-K2', fn='h_embed', depth=10, budget_s=1800, cfg=dict(arity=2, K=2),
             bounds='embed: pairs, <=2 named each, 4 flag combinations, star-name variants', min_nontrivial=1000),
        dict(name='embed-triples-total2', fn='h_embed', depth=10, budget_s=1200, cfg=dict(arity=3, K=2, total=2),
             bounds='embed: triples, <=2 named in total', min_nontrivial=500),
        dict(name='mask-K3', fn='h_mask', depth=10, budget_s=1800, cfg=dict(K=3, names=2),
             bounds='mask: <=3 named parameters, num_args 0..len+2, <=2 names, 16 hide combinations', min_nontrivial=500),
        dict(name='forwards-total3', fn='h_forwards', depth=10, budget_s=2400, cfg=dict(K=2, total=3, names=1),
             bounds='forwards: pairs, <=3 named in total, <=1 name, 32 flag combinations', min_nontrivial=500),
    ]
