"""Known findings: /verif/known_findings.json, committed, never written at run time.

An entry identifies a *specific* failing input family by regular expressions over the violation's
label, rendered case and info; a violation of the same property that does not match is still
reported.  ``fixed`` entries are documentation only and match nothing.
"""
import json
import os
import re

PATH = os.path.join(os.path.dirname(os.path.dirname(os.path.abspath(__file__))), 'known_findings.json')


def load(path=PATH):
    try:
        with open(path) as f:
            data = json.load(f)
    except FileNotFoundError:
        return []
    out = []
    for e in data.get('findings', []):
        out.append(dict(e,
                        _label=re.compile(e.get('label', '.*'), re.S),
                        _case=re.compile(e.get('case', '.*'), re.S),
                        _info=re.compile(e.get('info', '.*'), re.S)))
    return out


def match(known, prop, v):
    """-> finding id or None."""
    for e in known or ():
        if e.get('property') != prop:
            continue
        if not e['_label'].search(v.get('label') or ''):
            continue
        if not e['_case'].search(v.get('case') or ''):
            continue
        if not e['_info'].search(json.dumps(v.get('info'), sort_keys=True, default=repr)):
            continue
        return e['id']
    return None


def describe(known, fid):
    for e in known or ():
        if e['id'] == fid:
            return e.get('what', fid)
    return fid
