"""./check <ID> [--tier quick|thorough] [--replay file]

Runs the harness plan of a property against /repo's current working tree, confirms every
counterexample by replay (no CrossHair, no z3), writes /verif/evidence/<ID>.json and prints
VIOLATION / KNOWN-FINDING lines.  Exit 0: no unlisted violation in everything explored;
1: replay-confirmed violation; 3: the check itself is not trustworthy on this run
(oracle self-validation failed, a counterexample did not reproduce, vacuity guard tripped,
harness exception).
"""
import argparse
import collections
import hashlib
import importlib
import json
import multiprocessing
import os
import subprocess
import sys
import time

HERE = os.path.dirname(os.path.dirname(os.path.abspath(__file__)))
REPO = os.environ.get('SIGTOOLS_VERIF_REPO', '/repo')


def _setup_path():
    for p in (REPO, HERE):
        if p in sys.path:
            sys.path.remove(p)
        sys.path.insert(0, p)
    os.environ.setdefault('SIGTOOLS_VERIF', '1')


def _selfcheck_proc(q):
    try:
        _setup_path()
        from symx import selfcheck
        q.put(selfcheck.run())
    except BaseException as e:  # noqa
        import traceback
        q.put(dict(ok=False, error=traceback.format_exc()))


def run_selfcheck():
    ctx = multiprocessing.get_context('fork')
    q = ctx.Queue()
    p = ctx.Process(target=_selfcheck_proc, args=(q,))
    p.start()
    try:
        res = q.get(timeout=300)
    except Exception:
        res = dict(ok=False, error='self-validation timed out')
    p.join(10)
    return res


def second_opinion(smt2_samples, limit=40):
    """Re-decide a sample of the dumped queries with the system z3 4.8.12 binary."""
    import shutil
    import tempfile
    z3bin = shutil.which('z3')
    res = dict(checked=0, agree=0, disagree=0, errors=0, binary=z3bin)
    if not z3bin:
        return res
    for expected, text in smt2_samples[:limit]:
        with tempfile.NamedTemporaryFile('w', suffix='.smt2', delete=False) as f:
            f.write(text)
            if '(check-sat)' not in text:
                f.write('\n(check-sat)\n')
            name = f.name
        try:
            out = subprocess.run([z3bin, '-T:20', name], capture_output=True, text=True, timeout=40).stdout
        except Exception:
            out = '(error timeout)'
        finally:
            os.unlink(name)
        res['checked'] += 1
        if '(error' in out:
            res['errors'] += 1
            continue
        words = out.split()
        got = words[0] if words else ''
        if got == expected:
            res['agree'] += 1
        elif got in ('sat', 'unsat'):
            res['disagree'] += 1
        else:
            res['errors'] += 1
    return res


def functions_executed(harness_mod, fn_name, cfg, decision_lists):
    """Which sigtools functions the harness really executes: concrete re-run of sample paths
    (replay mode, in this process, no solver stack) under sys.setprofile."""
    from symx import sym, driver
    mod = importlib.import_module(harness_mod)
    fn = getattr(mod, fn_name)
    seen = collections.Counter()
    root = os.path.join(os.path.realpath(REPO), 'sigtools') + os.sep

    def prof(frame, event, arg):
        if event == 'call':
            co = frame.f_code
            if co.co_filename.startswith(root):
                seen['%s:%s' % (os.path.basename(co.co_filename), co.co_qualname)] += 1
    seen['__replayed__'] = 0
    for dec in decision_lists:
        if dec is None or any(d is None for d in dec):
            continue
        seen['__replayed__'] += 1
        sym.MODE = 'replay'
        ctx = driver.Ctx('replay', cfg=cfg)
        sym.begin_path((), replay=dec)
        sys.setprofile(prof)
        try:
            fn(ctx, cfg)
        except Exception:
            pass
        finally:
            sys.setprofile(None)
    return seen


def write_replay(prop, harness_mod, fn_name, cfg, v):
    os.makedirs(os.path.join(HERE, 'replays'), exist_ok=True)
    body = dict(property=prop, harness_mod=harness_mod, fn=fn_name, cfg=cfg,
                decisions=v['decisions'], label=v['label'], witness=v.get('witness'),
                info=v.get('info'), case=v.get('case'))
    h = hashlib.blake2b(json.dumps(body, sort_keys=True, default=repr).encode(), digest_size=6).hexdigest()
    path = os.path.join(HERE, 'replays', '%s-%s.json' % (prop, h))
    with open(path, 'w') as f:
        json.dump(body, f, indent=1, default=repr)
    return path


def run_replay(path):
    env = dict(os.environ)
    env['PYTHONPATH'] = os.pathsep.join([REPO, HERE])
    r = subprocess.run([sys.executable, '-m', 'symx.replay', path], capture_output=True, text=True,
                       cwd=HERE, env=env, timeout=300)
    return r.returncode == 0, (r.stdout + r.stderr).strip()


def _budget(item, tier):
    """Per-item time budget.  Thorough items are capped (default 420 s each, VERIF_THOROUGH_CAP_S to change) so that a
    whole thorough check stays around 15-30 minutes; a capped item that does not exhaust its universe reports
    exhaustive=false and the explored fraction.  VERIF_BUDGET_S caps every item (development)."""
    b = float(item.get('budget_s', 600))
    if tier == 'thorough':
        b = min(b, float(os.environ.get('VERIF_THOROUGH_CAP_S', '420')))
    return min(b, float(os.environ.get('VERIF_BUDGET_S', '1e9')))


def main(argv=None):
    ap = argparse.ArgumentParser()
    ap.add_argument('prop')
    ap.add_argument('--tier', default=os.environ.get('VERIF_TIER') or 'quick', choices=['quick', 'thorough'])
    ap.add_argument('--replay')
    ap.add_argument('--workers', type=int, default=int(os.environ.get('VERIF_WORKERS', '0')) or None)
    ap.add_argument('--only', help='run only the plan items whose name contains this')
    ap.add_argument('--no-twin', action='store_true')
    args = ap.parse_args(argv)
    _setup_path()
    if args.replay:
        from symx import replay
        return 0 if replay.run(args.replay) else 4

    prop = args.prop.upper()
    seed = int(os.environ.get('VERIF_SEED', '0') or 0)
    t0 = time.time()
    harness_mod = 'harness.%s' % prop.lower()
    mod = importlib.import_module(harness_mod)
    from symx import driver, known as known_mod
    known = known_mod.load()

    import glob
    for old in glob.glob(os.path.join(HERE, 'replays', prop + '-*.json')):
        os.unlink(old)

    problems = []      # things that make the run untrustworthy -> exit 3
    notes = []

    sc = run_selfcheck()
    if not sc.get('ok'):
        problems.append('oracle self-validation failed: %s' % (sc.get('error') or sc))

    plan = mod.plan(args.tier)
    if args.only:
        plan = [it for it in plan if args.only in it['name']]
    results = []
    all_viol = []
    for item in plan:
        cfg = dict(item.get('cfg', {}), property=prop, seed=seed)
        agg = driver.explore(harness_mod, item['fn'], cfg, depth=item.get('depth', 8),
                             workers=args.workers, budget_s=_budget(item, args.tier),
                             per_path_timeout=item.get('per_path_timeout', 20.0),
                             root_paths=(REPO, HERE))
        agg['name'] = item['name']
        agg['bounds'] = item.get('bounds', '')
        results.append((item, cfg, agg))
        print('[%s] %-28s paths=%d owned=%d distinct-nontrivial=%d exhausted=%d/%d cubes unknown=%d '
              'z3=%d (%.1fs) viol=%s known=%s wall=%.1fs' % (
                  prop, item['name'], agg['paths'], agg['owned'], agg['distinct_nontrivial'],
                  agg['cubes_exhausted'], agg['cubes'], agg['unknown_paths'] + agg['unknown_queries'],
                  agg['solver'].get('queries', 0), agg['solver'].get('solver_s', 0.0),
                  dict(agg['viol_count']), dict(agg['known_hits']), agg['wall_s']), flush=True)
        for he in agg['harness_errors']:
            problems.append('harness exception in %s on %s: %s' % (item['name'], he['case'], he['tb'][-600:]))
        minimum = item.get('min_nontrivial', 2)
        if agg['distinct_nontrivial'] < minimum and not agg['cubes_timed_out']:
            problems.append('vacuity guard: %s explored only %d non-trivial cases (< %d)' % (
                item['name'], agg['distinct_nontrivial'], minimum))
        for lab in item.get('must_reach', ()):
            if not agg['counters'].get('obl:' + lab) and not agg['cubes_timed_out']:
                problems.append('vacuity guard: obligation %r never reached in %s' % (lab, item['name']))
        for v in agg['violations']:
            all_viol.append((item, cfg, v))

    # ---- reachability twin (vacuity guard i): same harness, obligations replaced by False
    twin_ok = None
    if not args.no_twin and plan:
        item = plan[0]
        cfg = dict(item.get('cfg', {}), property=prop, seed=seed, twin=True, max_paths=80)
        agg = driver.explore(harness_mod, item['fn'], cfg, depth=4, workers=args.workers,
                             budget_s=60, root_paths=(REPO, HERE))
        twin_ok = False
        for v in agg['violations'][:40]:
            path = write_replay(prop + '-twin', harness_mod, item['fn'], cfg, v)
            ok, out = run_replay(path)
            os.unlink(path)
            if ok:
                twin_ok = True
                break
        if not twin_ok:
            problems.append('vacuity guard: reachability twin of %s produced no replay-confirmed '
                            'counterexample (%d candidates)' % (item['name'], len(agg['violations'])))

    # ---- confirm counterexamples by replay
    confirmed = []     # (path, v, known id or None)
    not_reproduced = []
    seen_keys = set()
    budget = 40
    known_budget = collections.Counter()        # up to 3 replays per known finding, independent of the rest
    # unknown-to-us violations first
    all_viol.sort(key=lambda t: (t[2].get('known') is not None))
    for item, cfg, v in all_viol:
        key = (v['label'].split('[')[0], v.get('known'), v.get('case'))
        if key in seen_keys:
            continue
        seen_keys.add(key)
        if v.get('known') is not None:
            if known_budget[v['known']] >= 3 or v['known'] in set(k for _, _, k in confirmed):
                continue
            known_budget[v['known']] += 1
        else:
            if budget <= 0:
                continue
            budget -= 1
        path = write_replay(prop, harness_mod, item['fn'], cfg, v)
        ok, out = run_replay(path)
        if ok:
            confirmed.append((path, v, v.get('known')))
        else:
            not_reproduced.append((path, v, out))

    violations = [c for c in confirmed if c[2] is None]
    known_hit_ids = collections.Counter()
    for item, cfg, agg in results:
        known_hit_ids.update(agg['known_hits'])
    for path, v, kid in confirmed:
        if kid is not None:
            os.unlink(path)
    confirmed_known = set(kid for _, _, kid in confirmed if kid is not None)
    for kid in sorted(known_hit_ids):
        if kid in confirmed_known:
            print('KNOWN-FINDING: property=%s %s [%d matching cases; id=%s]' % (
                prop, known_mod.describe(known, kid), known_hit_ids[kid], kid))
        else:
            problems.append('known finding %s matched %d cases but none reproduced by replay' % (kid, known_hit_ids[kid]))
    for path, v, out in not_reproduced:
        problems.append('counterexample did not reproduce (encoding wrong?): %s label=%s case=%s\n%s' % (
            path, v['label'], v.get('case'), out[-500:]))
    for path, v, _ in violations:
        from symx import callshape
        print('VIOLATION property=%s replay=%s' % (prop, path))
        print('    label=%s case=%s%s' % (v['label'], v.get('case'),
              (' witness: ' + callshape.render_call(v['witness'])) if v.get('witness') else ''))
        if v.get('info') is not None:
            print('    info=%s' % (json.dumps(v['info'], default=repr)[:400],))

    # ---- second opinion on a sample of queries
    smt2 = []
    for item, cfg, agg in results:
        smt2.extend(agg.get('smt2', []))
    so = second_opinion(smt2) if smt2 else dict(checked=0)
    if so.get('disagree'):
        problems.append('z3 4.8.12 disagrees with z3 5.1 on %d sampled queries' % so['disagree'])

    # ---- evidence
    funcs = collections.Counter()
    for item, cfg, agg in results:
        try:
            funcs.update(functions_executed(harness_mod, item['fn'], cfg, agg['sample_decisions']))
        except Exception as e:
            notes.append('function profile failed: %r' % (e,))
    profile_replays = funcs.pop('__replayed__', 0)
    total_paths = sum(a['owned'] for _, _, a in results)
    solver = collections.Counter()
    for _, _, a in results:
        solver.update(a['solver'])
    exhaustive = bool(results) and all(a['exhaustive'] for _, _, a in results)
    unknown = sum(a['unknown_paths'] + a['unknown_queries'] for _, _, a in results)
    ev = dict(
        property_id=prop, tier=args.tier, seed=seed, level=getattr(mod, 'LEVEL', 'model_checking'),
        coverage=dict(
            evaluations=total_paths,
            distinct_nontrivial=sum(a['distinct_nontrivial'] for _, _, a in results),
            rule=getattr(mod, 'RULE', ''),
            samples=[s for _, _, a in results for s in a['samples'][:4]][:16],
            exhaustive=exhaustive,
            explanation=getattr(mod, 'EXPLANATION', ''),
            technique='bounded symbolic execution of the real code (CrossHair 0.0.110 over z3 5.1) + z3 call-shape queries',
            functions_encoded=sorted(funcs),
            bounds=dict((it['name'], it.get('bounds', '')) for it, _, _ in results),
            outside_bounds=getattr(mod, 'OUTSIDE', ''),
            harnesses=[dict(name=a['name'], paths=a['paths'], owned_paths=a['owned'],
                            skipped_foreign_cube=a['skipped'], ignored=a['ignored'],
                            unknown_paths=a['unknown_paths'], unknown_queries=a['unknown_queries'],
                            cubes=a['cubes'], cubes_exhausted=a['cubes_exhausted'],
                            cubes_timed_out=a['cubes_timed_out'], exhaustive=a['exhaustive'],
                            distinct=a['distinct'], distinct_nontrivial=a['distinct_nontrivial'],
                            z3=a['solver'], counters=a['counters'], wall_s=round(a['wall_s'], 1),
                            cpu_s=round(a['cpu_s'], 1), violations=a['viol_count'],
                            known_findings=a['known_hits'])
                       for _, _, a in results],
            queries_discharged=solver.get('queries', 0), queries_unsat=solver.get('unsat', 0),
            queries_sat=solver.get('sat', 0), queries_unknown=solver.get('unknown', 0),
            solver_s=round(solver.get('solver_s', 0.0), 2),
            inconclusive=unknown,
            oracle_self_validation=sc,
            second_opinion_z3_4_8=so,
            reachability_twin_confirmed=twin_ok,
            traces_validated_against_impl=len(confirmed) + profile_replays + (1 if twin_ok else 0),
            traces_validated_detail=dict(counterexamples_confirmed_by_replay=len(confirmed), sample_paths_re_executed_without_solver=profile_replays,
                                         reachability_twin=1 if twin_ok else 0),
            counterexamples_not_reproduced=len(not_reproduced),
            known_findings=dict(known_hit_ids),
            problems=problems, notes=notes,
        ),
        assumptions=list(getattr(mod, 'ASSUMPTIONS', [])) + [
            'Python 3.12.1 only; sigtools is invariant under injective renaming of parameters (names are drawn from a small non-alphabetical pool, every equality pattern once)',
            'CrossHair path exhaustion is sound for the harness decision tree (decisions are z3 Booleans; an UNKNOWN path or solver answer is reported, never counted as success)',
            'the call-shape theory is CPython 3.12 binding; re-validated against real calls on every run (oracle_self_validation)',
        ],
        wall_s=round(time.time() - t0, 2),
        violations=len(violations),
    )
    evdir = os.environ.get('VERIF_EVIDENCE_DIR') or os.path.join(HERE, 'evidence')
    os.makedirs(evdir, exist_ok=True)
    with open(os.path.join(evdir, '%s.json' % prop), 'w') as f:
        json.dump(ev, f, indent=1, default=repr)
        f.write('\n')

    if violations:
        return 1
    if problems:
        for p in problems:
            print('HARNESS-ERROR property=%s %s' % (prop, p))
        return 3
    if not exhaustive:
        print('[%s] note: exploration not exhaustive within the time budget or with inconclusive paths '
              '(see evidence: exhaustive=false); property held on everything explored' % prop)
    print('[%s] OK tier=%s paths=%d queries=%d wall=%.1fs' % (prop, args.tier, total_paths,
                                                        solver.get('queries', 0), time.time() - t0))
    return 0


if __name__ == '__main__':
    sys.exit(main())
