"""CrossHair path loop over the real sigtools code, split into cubes over worker processes.

A *harness* is ``fn(ctx, cfg)``: it draws inputs through symx.sym, calls real sigtools
functions and states obligations through ``ctx``:

    ctx.case(text, nontrivial=True)      the decoded input of this path (rendered)
    ctx.refute(label, names, formula)    "formula is unsatisfiable over all call shapes" (z3)
    ctx.require(label, cond, info)       Python-level obligation; cond may be symbolic (z3 decides)
    ctx.count(key)                       coverage counter (productions reached, outcomes, ...)

The same harness code runs in replay mode (symx.replay) without CrossHair / z3.
"""
import collections
import hashlib
import importlib
import json
import multiprocessing
import os
import sys
import time
import traceback

from . import sym
from . import callshape

MAX_KEEP_VIOL = 12        # per (cube, label-class)
MAX_KEEP_KNOWN = 2        # per (cube, finding)


class SkipPath(Exception):
    """Path is not owned by this cube (structure decoded, ownership test failed)."""


class Violation(Exception):
    pass


class Ctx(object):
    """Per-path context.  mode: 'symbolic' | 'replay'."""

    def __init__(self, mode, solver=None, target=None, known=None, cfg=None):
        self.mode = mode
        self.solver = solver
        self.target = target          # replay: dict(label=..., witness=...)
        self.known = known
        self.cfg = cfg
        self.twin = bool(cfg and cfg.get('twin'))
        self.case_text = None
        self.nontrivial = False
        self.violations = []          # dicts
        self.counters = collections.Counter()
        self.reproduced = None        # replay verdict for the target label
        self.labels_seen = []
        self.unknown_queries = 0
        self.facts = {}

    # -- input description
    def case(self, text, nontrivial=True, seal=True, **facts):
        self.case_text = text
        self.nontrivial = bool(nontrivial)
        self.facts.update(facts)
        if seal:
            sym.seal()
            if self.mode == 'symbolic' and not sym.owns_path():
                raise SkipPath()

    def count(self, key, n=1):
        self.counters[key] += n

    # -- obligations
    def refute(self, label, names, formula, info=None, consts=None):
        """Obligation: no call shape satisfies ``formula``.  Returns True when it holds."""
        self.labels_seen.append(label)
        self.counters['obl:' + label.split('[')[0]] += 1
        if self.twin:
            return self._twin(label)
        if self.mode == 'replay':
            t = self.target
            if t is not None and t.get('label') == label and t.get('witness') is not None:
                call = callshape.norm_call(t['witness'])
                self.reproduced = bool(formula.real(call))
            return True
        with sym.notrace():
            verdict, call = self.solver.find(names, formula, consts)
            if verdict == 'unsat':
                return True
            if verdict == 'unknown':
                self.unknown_queries += 1
                return True
        self._violation(label, call, info)
        return False

    def must_be_sat(self, label, names, formula, info=None, grid_n=6):
        """Obligation: SOME call shape satisfies ``formula``.  A violation has no witness; replay
        confirms it by really evaluating the formula on a grid of calls (n <= grid_n, every keyword
        subset of names, with and without a foreign keyword) and finding none."""
        self.labels_seen.append(label)
        self.counters['obl:' + label.split('[')[0]] += 1
        if self.twin:
            return self._twin(label)
        if self.mode == 'replay':
            t = self.target
            if t is not None and t.get('label') == label:
                import itertools
                found = False
                for n in range(grid_n + 1):
                    for r in range(len(names) + 1):
                        for kws in itertools.combinations(names, r):
                            for fo in (False, True):
                                if formula.real((n, frozenset(kws), fo)):
                                    found = True
                self.reproduced = not found
            return True
        with sym.notrace():
            verdict, call = self.solver.find(names, formula, None)
            if verdict == 'sat':
                return True
            if verdict == 'unknown':
                self.unknown_queries += 1
                return True
        self._violation(label, None, info)
        return False

    def impossible(self, names, formula, grid_n=6):
        """Is ``formula`` unsatisfiable over all call shapes?  Symbolic mode: z3's verdict (unknown counts
        as inconclusive and returns False); replay mode: no call of a grid (n <= grid_n, all keyword
        subsets, with/without a foreign keyword) really satisfies it."""
        if self.mode == 'replay':
            import itertools
            for n in range(grid_n + 1):
                for r in range(len(names) + 1):
                    for kws in itertools.combinations(names, r):
                        for fo in (False, True):
                            if formula.real((n, frozenset(kws), fo)):
                                return False
            return True
        with sym.notrace():
            verdict, call = self.solver.find(names, formula, None)
            if verdict == 'unknown':
                self.unknown_queries += 1
                return False
            return verdict == 'unsat'

    def satisfiable(self, names, formula, consts=None):
        """Auxiliary query (vacuity guards, raise conditions): is there a call with formula?
        -> True / False / None(unknown).  Replay mode: None (not needed to confirm a witness)."""
        if self.mode == 'replay':
            return None
        with sym.notrace():
            verdict, call = self.solver.find(names, formula, consts)
            if verdict == 'unknown':
                self.unknown_queries += 1
                return None
            return verdict == 'sat'

    def witness(self, names, formula, consts=None):
        """Like satisfiable but returns the witness call (or None)."""
        if self.mode == 'replay':
            return None
        with sym.notrace():
            verdict, call = self.solver.find(names, formula, consts)
            if verdict == 'unknown':
                self.unknown_queries += 1
            return call

    def require(self, label, cond, info=None):
        """Obligation over (possibly symbolic) Python values: cond must be true.
        Under CrossHair ``if not cond`` asks z3 whether a falsifying value exists."""
        self.labels_seen.append(label)
        self.counters['obl:' + label.split('[')[0]] += 1
        if self.twin:
            return self._twin(label)
        if cond:
            return True
        if self.mode == 'replay':
            t = self.target
            if t is not None and t.get('label') == label:
                self.reproduced = True
            return False
        self._violation(label, None, info)
        return False

    def _twin(self, label):
        """Reachability twin: the obligation is replaced by ``False``; reaching it is the
        (expected) counterexample, which must survive the whole replay pipeline."""
        if self.mode == 'replay':
            t = self.target
            if t is not None and t.get('label') == label:
                self.reproduced = True
            return False
        if not self.violations:
            self._violation(label, None, 'reachability twin')
        return False

    def _violation(self, label, call, info):
        decisions = sym.decisions()          # pins the symbolic integers of this path first
        if callable(info):
            try:
                info = info()
            except Exception as e:          # rendering must never mask the violation itself
                info = 'info not renderable: %s' % type(e).__name__
        try:
            info = sym.concretize(info)
        except Exception as e:
            info = 'info not concretizable: %s' % type(e).__name__
        v = dict(label=label, witness=call, info=info, decisions=decisions, case=self.case_text)
        self.violations.append(v)


def _digest(text):
    return hashlib.blake2b(text.encode('utf8', 'replace'), digest_size=8).digest()


# ------------------------------------------------------------------ worker side

_W = {}


def _worker_init(harness_mod, root_paths):
    for p in root_paths:
        if p not in sys.path:
            sys.path.insert(0, p)
    sym.MODE = 'symbolic'
    import crosshair.core_and_libs  # noqa: registers library patches
    # Two of CrossHair's library patches change what sigtools observes and are removed so that the
    # traced code is the real code: functools.partial(...) would return a partial of a do-nothing
    # wrapper (sigtools inspects .func and isinstance(obj, partial)); weakref.ref.__call__ would run
    # gc.collect() on every dereference (sigtools' descriptor cache is a WeakKeyDictionary).
    import functools
    import weakref
    from crosshair.core import _PATCH_REGISTRATIONS
    _PATCH_REGISTRATIONS.pop(functools.partial, None)
    _PATCH_REGISTRATIONS.pop(weakref.ref.__call__, None)
    _W['solver'] = callshape.Solver()
    _W['mod'] = importlib.import_module(harness_mod)
    from . import known
    _W['known'] = known.load()


def _explore_cube(task):
    """Explore every path of one cube.  Returns a plain-data summary."""
    from crosshair.core import (Patched, COMPOSITE_TRACER, NoTracing, ResumedTracing,
                                StateSpaceContext, StateSpace, CallAnalysis,
                                VerificationStatus, IgnoreAttempt, UnexploredPath,
                                NotDeterministic, condition_parser)
    from crosshair.options import DEFAULT_OPTIONS
    from crosshair.statespace import RootNode
    from crosshair.util import CrossHairInternal
    import z3 as _z3
    from . import known as known_mod

    fn_name, cfg, prefix, deadline, per_path_timeout = task
    max_paths = cfg.get('max_paths')
    fn = getattr(_W['mod'], fn_name)
    solver = _W['solver']
    known = _W['known']
    q0 = solver.stats()
    root = RootNode()
    out = dict(prefix=prefix, paths=0, owned=0, skipped=0, ignored=0, unknown_paths=0,
               unknown_queries=0, harness_errors=[], exhausted=False, timed_out=False,
               digests=set(), nontrivial_digests=set(), violations=[], known_hits=collections.Counter(),
               viol_count=collections.Counter(), counters=collections.Counter(), samples=[],
               sample_decisions=[], t=0.0)
    kept = collections.Counter()
    t_start = time.time()
    options = DEFAULT_OPTIONS
    while True:
        now = time.time()
        if now > deadline:
            out['timed_out'] = True
            break
        itr_start = time.process_time()
        space = StateSpace(execution_deadline=itr_start + per_path_timeout,
                           model_check_timeout=per_path_timeout / 2, search_root=root)
        ctx = Ctx('symbolic', solver=solver, known=known, cfg=cfg)
        sample_dec = None
        status = None
        owned = False
        with condition_parser(options.analysis_kind), Patched(), COMPOSITE_TRACER, NoTracing(), \
                StateSpaceContext(space):
            try:
                sym.begin_path(prefix)
                try:
                    with ResumedTracing():
                        try:
                            fn(ctx, cfg)
                            owned = sym.owns_path()
                            if owned and len(out['samples']) < 3:
                                sample_dec = sym.decisions()
                        except SkipPath:
                            owned = False
                        except (NotDeterministic, _z3.Z3Exception):
                            raise
                        except Exception as e:   # harness bug or an escape the harness did not expect
                            owned = sym.owns_path()
                            if owned:
                                with NoTracing():
                                    tb = traceback.format_exc()
                                if len(out['harness_errors']) < 5:
                                    out['harness_errors'].append(
                                        dict(case=ctx.case_text, error=repr(type(e)), tb=tb[-1500:]))
                                out['counters']['harness_exception'] += 1
                    status = VerificationStatus.CONFIRMED
                except IgnoreAttempt:
                    status = None
                    out['ignored'] += 1
                except UnexploredPath:
                    status = VerificationStatus.UNKNOWN
                    out['unknown_paths'] += 1
                except CrossHairInternal as e:
                    # the engine could not model something on this path (e.g. C code formatting a
                    # symbolic value): inconclusive, never green
                    status = VerificationStatus.UNKNOWN
                    out['unknown_paths'] += 1
                    if len(out['harness_errors']) < 5:
                        out['harness_errors'].append(dict(case=ctx.case_text, error='CrossHairInternal',
                                                          tb=traceback.format_exc()[-1500:]))
            finally:
                pass
            _analysis, exhausted = space.bubble_status(CallAnalysis(status))
        out['paths'] += 1
        if owned and status is VerificationStatus.CONFIRMED:
            out['owned'] += 1
            out['unknown_queries'] += ctx.unknown_queries
            out['counters'].update(ctx.counters)
            text = ctx.case_text if ctx.case_text is not None else 'path#%d' % out['paths']
            d = _digest(text)
            out['digests'].add(d)
            if ctx.nontrivial:
                out['nontrivial_digests'].add(d)
            if len(out['samples']) < 3:
                out['samples'].append(text)
                out['sample_decisions'].append(sample_dec)
            for v in ctx.violations:
                kf = known_mod.match(known, cfg.get('property'), v)
                if kf is not None:
                    out['known_hits'][kf] += 1
                    key = ('known', kf)
                    cap = MAX_KEEP_KNOWN
                    v['known'] = kf
                else:
                    cls = v['label'].split('[')[0]
                    out['viol_count'][cls] += 1
                    key = ('viol', cls)
                    cap = MAX_KEEP_VIOL
                if kept[key] < cap:
                    kept[key] += 1
                    out['violations'].append(v)
        elif not owned:
            out['skipped'] += 1
        if exhausted:
            out['exhausted'] = True
            break
        if max_paths and out['paths'] >= max_paths:
            break
    q1 = solver.stats()
    out['solver'] = dict((k, q1[k] - q0[k]) for k in q1)
    out['t'] = time.time() - t_start
    out['known_hits'] = dict(out['known_hits'])
    out['viol_count'] = dict(out['viol_count'])
    out['counters'] = dict(out['counters'])
    if solver.smt2_samples:
        out['smt2'] = solver.smt2_samples[:]
        del solver.smt2_samples[:]
    return out


# ------------------------------------------------------------------ parent side

def all_prefixes(depth):
    for i in range(1 << depth):
        yield tuple((i >> (depth - 1 - b)) & 1 for b in range(depth))


def explore(harness_mod, fn_name, cfg, depth=8, workers=None, budget_s=600.0,
            per_path_timeout=20.0, root_paths=()):
    """Run one harness over all cubes.  Returns an aggregate summary (plain data)."""
    workers = workers or min(16, os.cpu_count() or 1)
    deadline = time.time() + budget_s
    tasks = [(fn_name, cfg, p, deadline, per_path_timeout) for p in all_prefixes(depth)]
    agg = dict(harness=harness_mod + '.' + fn_name, cfg=cfg, cubes=len(tasks), cubes_exhausted=0,
               cubes_timed_out=0, paths=0, owned=0, skipped=0, ignored=0, unknown_paths=0,
               unknown_queries=0, harness_errors=[], violations=[], known_hits=collections.Counter(),
               viol_count=collections.Counter(), counters=collections.Counter(), samples=[],
               sample_decisions=[], solver=collections.Counter(), smt2=[], cpu_s=0.0)
    digests = set()
    nontrivial = set()
    t0 = time.time()
    ctx_mp = multiprocessing.get_context('fork')
    pool = ctx_mp.Pool(workers, initializer=_worker_init,
                       initargs=(harness_mod, list(root_paths)))
    try:
        for out in pool.imap_unordered(_explore_cube, tasks, chunksize=1):
            agg['paths'] += out['paths']
            agg['owned'] += out['owned']
            agg['skipped'] += out['skipped']
            agg['ignored'] += out['ignored']
            agg['unknown_paths'] += out['unknown_paths']
            agg['unknown_queries'] += out['unknown_queries']
            agg['cpu_s'] += out['t']
            if out['exhausted']:
                agg['cubes_exhausted'] += 1
            if out['timed_out']:
                agg['cubes_timed_out'] += 1
            agg['harness_errors'].extend(out['harness_errors'][:max(0, 5 - len(agg['harness_errors']))])
            agg['violations'].extend(out['violations'])
            agg['known_hits'].update(out['known_hits'])
            agg['viol_count'].update(out['viol_count'])
            agg['counters'].update(out['counters'])
            agg['solver'].update(out['solver'])
            if len(agg['samples']) < 12:
                agg['samples'].extend(out['samples'][:2])
                agg['sample_decisions'].extend(out['sample_decisions'][:2])
            if len(agg['smt2']) < 60:
                agg['smt2'].extend(out.get('smt2', []))
            digests |= out['digests']
            nontrivial |= out['nontrivial_digests']
    finally:
        pool.terminate()
        pool.join()
    agg['distinct'] = len(digests)
    agg['distinct_nontrivial'] = len(nontrivial)
    agg['exhaustive'] = (agg['cubes_exhausted'] == agg['cubes'] and agg['unknown_paths'] == 0
                         and agg['unknown_queries'] == 0 and not agg['harness_errors'])
    agg['wall_s'] = time.time() - t0
    agg['solver'] = dict(agg['solver'])
    agg['known_hits'] = dict(agg['known_hits'])
    agg['viol_count'] = dict(agg['viol_count'])
    agg['counters'] = dict(agg['counters'])
    return agg
