"""Signature universe U(K, P): valid signatures with <= K named parameters, decoded from
solver decisions (symx.sym), each valid signature exactly once (no rejected encodings).

Names: the first signature takes POOL[0], POOL[1], ...; parameter i of a later signature takes
either a not-yet-used name of an earlier signature or one fresh name — every equality pattern
between names, each once.  Assumption (stated in evidence): sigtools is invariant under injective
renaming of parameters; POOL is deliberately not alphabetical.
"""
import inspect
import linecache

from . import sym
from .callshape import Shape

P = inspect.Parameter
KINDS = (P.POSITIONAL_ONLY, P.POSITIONAL_OR_KEYWORD, P.KEYWORD_ONLY)

POOL = ('p', 'd', 'x', 'b', 'm', 'a', 'w', 'c')
FRESH = (('t', 'g', 'y', 'e'), ('r', 'h', 'z', 'f'), ('u', 'k', 'n', 'j'))
POOL_REV = tuple(reversed(POOL))
FRESH_REV = tuple(tuple(reversed(f)) for f in reversed(FRESH))
STAR_DEFAULT = ('args', 'kwargs')
STAR_ALT = ('rest', 'kw')


class Spec(object):
    """Structure of one signature: kinds (0 po, 1 pok, 2 kwo) and has-default per named
    parameter, star flags, names, star names."""
    __slots__ = ('kinds', 'defaults', 'va', 'vk', 'names', 'stars')

    def __init__(self, kinds, defaults, va, vk, names=None, stars=STAR_DEFAULT):
        self.kinds = tuple(kinds); self.defaults = tuple(defaults)
        self.va = bool(va); self.vk = bool(vk)
        self.names = tuple(names) if names is not None else None
        self.stars = tuple(stars)

    def shape(self, real=None):
        po = []; pok = []; kwo = []
        for nm, k, d in zip(self.names, self.kinds, self.defaults):
            (po, pok, kwo)[k].append((nm, d))
        return Shape(po, pok, self.stars[0] if self.va else None, kwo,
                     self.stars[1] if self.vk else None, real)

    def deflist(self, default='1', values=None, annotations=None):
        """Python def-list text.  values: {name: expr text}; annotations: {name: expr text}."""
        parts = []
        last = None

        def item(nm, d):
            s = nm
            if annotations and nm in annotations:
                s += ': ' + annotations[nm]
            if d:
                v = (values or {}).get(nm, default)
                s += (' = ' if annotations and nm in annotations else '=') + v
            return s
        for nm, k, d in zip(self.names, self.kinds, self.defaults):
            if last == 0 and k != 0:
                parts.append('/')
            if k == 2 and last != 2:
                parts.append(('*' + self.stars[0]) if self.va else '*')
            parts.append(item(nm, d))
            last = k
        if last == 0:
            parts.append('/')
        if self.va and last != 2:
            parts.append('*' + self.stars[0])
        if self.vk:
            parts.append('**' + self.stars[1])
        return ', '.join(parts)

    def __repr__(self):
        return '(' + self.deflist() + ')'


def gen_struct(K, need_va=False, need_vk=False, allow_stars=True):
    """Decode kinds/defaults/stars of a signature with <= K named parameters."""
    kind = 0
    seq = []
    while len(seq) < K and sym.flip('more'):
        while kind < 2 and sym.flip('adv'):
            kind += 1
        seq.append(kind)
    va = True if need_va else (sym.flip('va') if allow_stars else False)
    vk = True if need_vk else (sym.flip('vk') if allow_stars else False)
    need_default = False
    defaults = []
    for k in seq:
        if k < 2:
            hd = need_default or sym.flip('hd')
            need_default = hd
        else:
            hd = sym.flip('hd')
        defaults.append(hd)
    return Spec(seq, defaults, va, vk)


def gen_names(spec, earlier, index, reverse_pool=False):
    """Assign names to spec (index = which signature of the tuple it is)."""
    pool = POOL_REV if reverse_pool else POOL
    fresh = FRESH_REV if reverse_pool else FRESH
    n = len(spec.kinds)
    if index == 0:
        spec.names = tuple(pool[:n])
        return spec
    used = []
    names = []
    for i in range(n):
        choices = [x for x in earlier if x not in used] + [fresh[index - 1][i]]
        nm = choices[sym.pick(len(choices), 'nm')] if len(choices) > 1 else choices[0]
        used.append(nm)
        names.append(nm)
    spec.names = tuple(names)
    return spec


def gen_sigs(count, K, total=None, star_variants=False, reverse_pool=False,
             need_stars=(), allow_stars=True):
    """Decode ``count`` specs; total bounds the sum of named parameters."""
    specs = []
    earlier = []
    remaining = total if total is not None else count * K
    for j in range(count):
        nv, nk = (need_stars[j] if j < len(need_stars) else (False, False))
        s = gen_struct(min(K, remaining), nv, nk, allow_stars)
        remaining -= len(s.kinds)
        gen_names(s, earlier, j, reverse_pool)
        if star_variants and j > 0:
            sa = STAR_DEFAULT[0]; sk = STAR_DEFAULT[1]
            if s.va and any(e.va for e in specs) and sym.flip('sva'):
                sa = STAR_ALT[0]
            if s.vk and any(e.vk for e in specs) and sym.flip('svk'):
                sk = STAR_ALT[1]
            s.stars = (sa, sk)
        for nm in s.names:
            if nm not in earlier:
                earlier.append(nm)
        specs.append(s)
    return specs


# ------------------------------------------------------------------ materialisation

_fn_cache = {}
_counter = [0]


def make_function(deftext, body='    return locals()', name='f', globs=None, cache_key=None,
                  future_annotations=False, decorators=(), returns=None):
    """exec a ``def`` with a linecache entry so inspect.getsource works.  Cached per text when
    cache_key is given (the same function object is then shared between paths: never mutate it)."""
    key = (cache_key, name, deftext, body, future_annotations, tuple(decorators), returns) if cache_key is not None else None
    if key is not None and key in _fn_cache:
        return _fn_cache[key]
    with sym.notrace():
        _counter[0] += 1
        filename = '<symx-%d>' % _counter[0]
        lines = []
        if future_annotations:
            lines.append('from __future__ import annotations')
        lines.extend(decorators)
        lines.append('def %s(%s)%s:' % (name, deftext, (' -> ' + returns) if returns else ''))
        lines.append(body)
        src = '\n'.join(lines) + '\n'
        linecache.cache[filename] = (len(src), None, src.splitlines(True), filename)
        ns = dict(globs or {})
        exec(compile(src, filename, 'exec'), ns)
        fn = ns[name]
    if key is not None:
        _fn_cache[key] = fn
    return fn


def real_function(spec, tag='f', default='1'):
    """A real function with spec's def-list, cached per (tag, text)."""
    return make_function(spec.deflist(default), name=tag, cache_key=('rf', tag))


def sig_of(spec, tag='f'):
    """UpgradedSignature of a real function with this def-list, via sigtools' own plain
    retrieval (signatures.signature) so that provenance is what sigtools itself attaches."""
    from sigtools import _signatures
    fn = real_function(spec, tag)
    sig = _sig_cache.get(fn)
    if sig is None:
        with sym.notrace():
            sig = _sig_cache[fn] = _signatures.signature(fn)
    return sig, fn


_sig_cache = {}
