"""Call-shape theory: CPython 3.12 argument binding as QF_LIA + Bool formulas, and the same
formulas evaluated by *really calling* functions (used by replay; no z3 import needed there).

A call shape is c = (n, kw, fo): n >= 0 positional arguments, kw a subset of the finite name
universe N of the query, fo = "a keyword outside N is passed as well".

Formulas are small trees with two interpreters:
    .z3(env)    -> z3 BoolRef over env.n / env.kw[name] / env.fo
    .real(call) -> bool, computed by calling real ``def`` functions (or a supplied callable)
                   with a concrete call (n:int, kws:frozenset, fo:bool)
"""
import inspect
import itertools

P = inspect.Parameter
FOREIGN_KW = 'zz_foreign'


# ------------------------------------------------------------------ shapes

class Shape(object):
    """Def-list of a signature: po/pok/kwo are tuples of (name, has_default); va/vk names or None.
    ``real`` (optional) is a callable to use in place of a materialised def in real evaluation."""
    __slots__ = ('po', 'pok', 'va', 'kwo', 'vk', 'real')

    def __init__(self, po=(), pok=(), va=None, kwo=(), vk=None, real=None):
        self.po = tuple(po)
        self.pok = tuple(pok)
        self.va = va
        self.kwo = tuple(kwo)
        self.vk = vk
        self.real = real

    @property
    def kwable(self):
        return frozenset(n for n, _ in self.pok) | frozenset(n for n, _ in self.kwo)

    @property
    def named(self):
        return tuple(n for n, _ in self.po + self.pok + self.kwo)

    @property
    def npos(self):
        return len(self.po) + len(self.pok)

    def with_real(self, real):
        return Shape(self.po, self.pok, self.va, self.kwo, self.vk, real)

    def all_optional(self):
        f = lambda seq: tuple((n, True) for n, _ in seq)
        return Shape(f(self.po), f(self.pok), self.va, f(self.kwo), self.vk, self.real)

    def deflist(self, default='1'):
        parts = []
        for n, d in self.po:
            parts.append(n + ('=' + default if d else ''))
        if self.po:
            parts.append('/')
        for n, d in self.pok:
            parts.append(n + ('=' + default if d else ''))
        if self.va:
            parts.append('*' + self.va)
        elif self.kwo:
            parts.append('*')
        for n, d in self.kwo:
            parts.append(n + ('=' + default if d else ''))
        if self.vk:
            parts.append('**' + self.vk)
        return ', '.join(parts)

    def __repr__(self):
        return '(' + self.deflist() + ')'

    def key(self):
        return (self.po, self.pok, self.va, self.kwo, self.vk)


def shape_of(sig, real=None):
    po = []; pok = []; kwo = []; va = None; vk = None
    for p in sig.parameters.values():
        e = (p.name, p.default is not P.empty)
        if p.kind == P.POSITIONAL_ONLY:
            po.append(e)
        elif p.kind == P.POSITIONAL_OR_KEYWORD:
            pok.append(e)
        elif p.kind == P.VAR_POSITIONAL:
            va = p.name
        elif p.kind == P.KEYWORD_ONLY:
            kwo.append(e)
        else:
            vk = p.name
    return Shape(po, pok, va, kwo, vk, real)


def roles(shape):
    """name -> role: (kind, index) for positional kinds, (kind,) otherwise (star params included)."""
    r = {}
    for i, (nm, _) in enumerate(shape.po):
        r[nm] = ('po', i)
    for i, (nm, _) in enumerate(shape.pok):
        r[nm] = ('pok', len(shape.po) + i)
    for nm, _ in shape.kwo:
        r[nm] = ('kwo',)
    if shape.va:
        r[shape.va] = ('va',)
    if shape.vk:
        r[shape.vk] = ('vk',)
    return r


def role_consistent(shapes):
    seen = {}
    for s in shapes:
        for nm, ro in roles(s).items():
            if nm in seen and seen[nm] != ro:
                return False
            seen[nm] = ro
    return True


def name_aligned(shapes):
    """Positional parameters agree on the name position by position (over the common prefix)."""
    seqs = [[n for n, _ in s.po + s.pok] for s in shapes]
    for col in itertools.zip_longest(*seqs):
        present = [c for c in col if c is not None]
        if len(set(present)) > 1:
            return False
    return True


_def_cache = {}


def materialise(shape):
    """A real function with this def-list; returns its locals."""
    if shape.real is not None:
        return shape.real
    key = shape.key()
    fn = _def_cache.get(key)
    if fn is None:
        ns = {}
        exec('def f(%s):\n    return locals()\n' % shape.deflist(), ns)
        fn = _def_cache[key] = ns['f']
    return fn


def really_accepts(fn, n, kws, fo, value=lambda i: i):
    """Really call fn with n positionals and the keywords; True iff no TypeError."""
    kw = dict((k, ('kw', k)) for k in kws)
    if fo:
        kw[FOREIGN_KW] = ('kw', FOREIGN_KW)
    try:
        fn(*[value(i) for i in range(n)], **kw)
    except TypeError:
        return False
    return True


# ------------------------------------------------------------------ call terms

class Base(object):
    """The quantified call itself."""
    def z3(self, env):
        return env.n, env.kw, env.fo

    def real(self, call):
        return call


class Shift(object):
    """The call with ``add_n`` extra leading positionals and ``names`` added as keywords.
    add_n may be an int or (z3 interpretation) the name of an integer constant of the env."""
    def __init__(self, term, add_n=0, names=()):
        self.term = term; self.add_n = add_n; self.names = tuple(names)

    def z3(self, env):
        import z3
        n, kw, fo = self.term.z3(env)
        kw = dict(kw)
        for x in self.names:
            kw[x] = z3.BoolVal(True)
        add = env.const(self.add_n) if isinstance(self.add_n, str) else self.add_n
        return n + add, kw, fo

    def real(self, call):
        n, kws, fo = self.term.real(call)
        add = call_consts(call)[self.add_n] if isinstance(self.add_n, str) else self.add_n
        return with_consts((n + add, frozenset(kws) | frozenset(self.names), fo), call)


class Hidden(object):
    """The call as seen by the masked signature when the masking call site also passes *hidden*
    arguments: ``set_n`` replaces the positional count (hide_args: the hidden star supplies all
    positionals), ``add_n`` adds trailing positionals, ``names`` adds keywords, ``fo`` forces a
    foreign keyword."""
    def __init__(self, term=None, set_n=None, add_n=0, names=(), fo=False):
        self.term = term or Base(); self.set_n = set_n; self.add_n = add_n
        self.names = tuple(names); self.fo = fo

    def z3(self, env):
        import z3
        n, kw, fo = self.term.z3(env)
        kw = dict(kw)
        for x in self.names:
            kw[x] = z3.BoolVal(True)
        if self.set_n is not None:
            n = z3.IntVal(self.set_n)
        return n + self.add_n, kw, (z3.BoolVal(True) if self.fo else fo)

    def real(self, call):
        n, kws, fo = self.term.real(call)[:3]
        if self.set_n is not None:
            n = self.set_n
        return with_consts((n + self.add_n, frozenset(kws) | frozenset(self.names), fo or self.fo), call)


def call_consts(call):
    return call[3] if len(call) > 3 else {}


def with_consts(call3, call):
    return tuple(call3[:3]) + ((call[3],) if len(call) > 3 else ())


class Site(object):
    """One forwarding call ``callee(<k positionals>, *args?, name=..., **kwargs?)`` written in a
    function with def-list ``o``.  drop_pos: leading surplus positionals removed before forwarding
    (``args = args[1:]``); add_kw: keywords stored into kwargs before forwarding."""
    def __init__(self, k=0, names=(), use_va=True, use_vk=True, drop_pos=0, add_kw=(), clear_kw=False):
        self.k = k; self.names = tuple(names); self.use_va = use_va; self.use_vk = use_vk
        self.drop_pos = drop_pos; self.add_kw = tuple(add_kw); self.clear_kw = clear_kw

    def __repr__(self):
        parts = ['_%d' % i for i in range(self.k)]
        if self.use_va: parts.append('*args')
        parts += ['%s=..' % n for n in self.names]
        if self.use_vk: parts.append('**kwargs')
        return 'callee(' + ', '.join(parts) + ')'


class Fwd(object):
    """Call shape the callee receives from ``site`` when its enclosing def-list ``o`` got ``term``."""
    def __init__(self, o, site, term=None):
        self.o = o; self.site = site; self.term = term or Base()

    def z3(self, env):
        import z3
        n, kw, fo = self.term.z3(env)
        o, s = self.o, self.site
        if s.use_va and o.va:
            surplus = n - o.npos - s.drop_pos
            n2 = s.k + z3.If(surplus > 0, surplus, 0)
        else:
            n2 = z3.IntVal(s.k)
        kw2 = {}
        passes_kw = s.use_vk and o.vk and not s.clear_kw
        for x in env.names:
            if passes_kw and x not in o.kwable:
                kw2[x] = kw.get(x, z3.BoolVal(False))
            else:
                kw2[x] = z3.BoolVal(False)
        for x in s.names + s.add_kw:
            kw2[x] = z3.BoolVal(True)
        fo2 = fo if passes_kw else z3.BoolVal(False)
        return n2, kw2, fo2

    def dup_free_z3(self, env):
        """No keyword is passed both explicitly and through **kwargs at the site."""
        import z3
        n, kw, fo = self.term.z3(env)
        o, s = self.o, self.site
        if not (s.use_vk and o.vk) or s.clear_kw:
            return z3.BoolVal(True)
        cs = [z3.Not(kw[x]) for x in s.names if x not in o.kwable and x in kw]
        return z3.And(*cs) if cs else z3.BoolVal(True)


# ------------------------------------------------------------------ formulas

class F(object):
    def __and__(self, other): return And(self, other)
    def __or__(self, other): return Or(self, other)
    def __invert__(self): return Not(self)


class Const(F):
    def __init__(self, v): self.v = bool(v)
    def z3(self, env):
        import z3
        return z3.BoolVal(self.v)
    def real(self, call): return self.v


class And(F):
    def __init__(self, *fs): self.fs = fs
    def z3(self, env):
        import z3
        return z3.And(*[f.z3(env) for f in self.fs]) if self.fs else z3.BoolVal(True)
    def real(self, call): return all(f.real(call) for f in self.fs)


class Or(F):
    def __init__(self, *fs): self.fs = fs
    def z3(self, env):
        import z3
        return z3.Or(*[f.z3(env) for f in self.fs]) if self.fs else z3.BoolVal(False)
    def real(self, call): return any(f.real(call) for f in self.fs)


class Not(F):
    def __init__(self, f): self.f = f
    def z3(self, env):
        import z3
        return z3.Not(self.f.z3(env))
    def real(self, call): return not self.f.real(call)


def accept_z3(sh, n, kw, fo):
    """CPython's binding rule for def-list ``sh`` on the symbolic call (n, kw, fo)."""
    import z3
    F_ = z3.BoolVal(False)
    c = []
    a = len(sh.po); b = len(sh.pok)
    if sh.va is None:
        c.append(n <= a + b)
    for i, (nm, d) in enumerate(sh.po, 1):
        if not d:
            c.append(n >= i)
    for j, (nm, d) in enumerate(sh.pok, 1):
        k = kw.get(nm, F_)
        c.append(z3.Not(z3.And(k, n >= a + j)))
        if not d:
            c.append(z3.Or(n >= a + j, k))
    for nm, d in sh.kwo:
        if not d:
            c.append(kw.get(nm, F_))
    if sh.vk is None:
        kwable = sh.kwable
        c += [z3.Not(k) for nm, k in kw.items() if nm not in kwable]
        c.append(z3.Not(fo))
    return z3.And(*c) if c else z3.BoolVal(True)


def accept_py(sh, n, kws, fo=False):
    """Same rule on a concrete call; only used to cross-check the theory, never as an oracle."""
    a = len(sh.po); b = len(sh.pok)
    if sh.va is None and n > a + b:
        return False
    for i, (nm, d) in enumerate(sh.po, 1):
        if not d and n < i:
            return False
    for j, (nm, d) in enumerate(sh.pok, 1):
        if nm in kws and n >= a + j:
            return False
        if not d and not (n >= a + j or nm in kws):
            return False
    for nm, d in sh.kwo:
        if not d and nm not in kws:
            return False
    if sh.vk is None:
        if fo or any(k not in sh.kwable for k in kws):
            return False
    return True


_acc_cache = {}
_env_cache = {}


def get_env(names, consts=()):
    key = (tuple(names), tuple(sorted(consts)))
    e = _env_cache.get(key)
    if e is None:
        e = _env_cache[key] = Env(names, consts)
    return e


class Acc(F):
    """shape accepts the call denoted by term.  In real evaluation ``real`` (default: a def
    materialised from the shape, or shape.real) is really called with ``real_term or term``."""
    def __init__(self, shape, term=None, real=None, real_term=None):
        self.shape = shape; self.term = term or Base()
        self.realfn = real; self.real_term = real_term

    def z3(self, env):
        if type(self.term) is Base:
            key = (self.shape.key(), env.names)
            f = _acc_cache.get(key)
            if f is None:
                f = _acc_cache[key] = accept_z3(self.shape, env.n, env.kw, env.fo)
            return f
        n, kw, fo = self.term.z3(env)
        return accept_z3(self.shape, n, kw, fo)

    def real(self, call):
        fn = self.realfn or materialise(self.shape)
        c = (self.real_term or self.term).real(call)
        return really_accepts(fn, c[0], c[1], c[2])


class Exec(F):
    """Ground-truth execution model: def-list ``o`` accepts the call and every site's callee
    accepts what the site forwards.  Real evaluation: build the wrapper as a real ``def`` whose body
    performs the sites (or call ``real`` when the real program exists) and call it."""
    def __init__(self, o, sites, real=None, term=None):
        self.o = o; self.sites = list(sites); self.realfn = real; self.term = term or Base()

    def z3(self, env):
        import z3
        n, kw, fo = self.term.z3(env)
        cs = [accept_z3(self.o, n, kw, fo)]
        for site, callee in self.sites:
            fwd = Fwd(self.o, site, self.term)
            n2, kw2, fo2 = fwd.z3(env)
            cs.append(accept_z3(callee, n2, kw2, fo2))
            cs.append(fwd.dup_free_z3(env))
        return z3.And(*cs)

    def real(self, call):
        c = self.term.real(call)
        fn = self.realfn or build_wrapper(self.o, self.sites)
        return really_accepts(fn, c[0], c[1], c[2])


class ChainExec(F):
    """Execution model of a stack of forwarding layers: layers[0] (outermost def-list) receives the call and
    forwards its stars, with the plain site f(*args, **kwargs), to layers[1], ... the last layer forwards to
    ``final``.  Real evaluation calls ``real`` (the really built stack)."""
    def __init__(self, layers, final, real):
        self.layers = list(layers); self.final = final; self.realfn = real

    def z3(self, env):
        import z3
        term = Base()
        cs = []
        plain_site = Site(0, (), True, True)
        for layer in self.layers:
            # a layer is a def-list, or (def-list, site) when it passes fixed arguments of its own
            o, site = layer if isinstance(layer, tuple) else (layer, plain_site)
            n, kw, fo = term.z3(env)
            cs.append(accept_z3(o, n, kw, fo))
            term = Fwd(o, site, term)
        n, kw, fo = term.z3(env)
        cs.append(accept_z3(self.final, n, kw, fo))
        return z3.And(*cs)

    def real(self, call):
        return really_accepts(self.realfn, call[0], call[1], call[2])


_wrap_cache = {}


def build_wrapper(o, sites):
    """def wrapper(<o>): callee_i(<k>, *args[drop:], name=.., **kwargs) for each site."""
    key = (o.key(), tuple((repr(vars(s)), c.key(), id(c.real)) for s, c in sites))
    fn = _wrap_cache.get(key)
    if fn is not None:
        return fn
    ns = {}
    lines = ['def wrapper(%s):' % o.deflist()]
    for i, (s, callee) in enumerate(sites):
        ns['callee%d' % i] = materialise(callee)
        parts = ['0'] * s.k
        if s.use_va and o.va:
            parts.append('*%s[%d:]' % (o.va, s.drop_pos) if s.drop_pos else '*' + o.va)
        parts += ['%s=0' % nm for nm in s.names]
        if s.use_vk and o.vk:
            if s.clear_kw:
                parts.append('**dict(%s)' % ', '.join('%s=0' % k for k in s.add_kw))
            elif s.add_kw:
                parts.append('**dict(%s, %s)' % (o.vk, ', '.join('%s=0' % k for k in s.add_kw)))
            else:
                parts.append('**' + o.vk)
        elif s.add_kw:
            parts += ['%s=0' % k for k in s.add_kw]
        lines.append('    callee%d(%s)' % (i, ', '.join(parts)))
    lines.append('    return None')
    exec('\n'.join(lines), ns)
    fn = _wrap_cache[key] = ns['wrapper']
    return fn


class NonColl(F):
    """Every keyword used is keyword-passable in the result or is not a name bound by any input.
    ``bound_names``: parameter names of the inputs (plus names written explicitly at forwarding
    sites).  Names in the query universe outside bound_names and the foreign keyword are free."""
    def __init__(self, result_kwable, bound_names, term=None):
        self.block = frozenset(bound_names) - frozenset(result_kwable)
        self.term = term or Base()

    def z3(self, env):
        import z3
        n, kw, fo = self.term.z3(env)
        cs = [z3.Not(kw[x]) for x in self.block if x in kw]
        return z3.And(*cs) if cs else z3.BoolVal(True)

    def real(self, call):
        n, kws, fo = self.term.real(call)[:3]
        return not (frozenset(kws) & self.block)


class AllPosOrAllKw(F):
    def z3(self, env):
        import z3
        nokw = z3.And(z3.Not(env.fo), *[z3.Not(k) for k in env.kw.values()])
        return z3.Or(nokw, env.n == 0)

    def real(self, call):
        n, kws, fo = call[:3]
        return (not kws and not fo) or n == 0


class KwDisjoint(F):
    def __init__(self, names): self.names = tuple(names)
    def z3(self, env):
        import z3
        cs = [z3.Not(env.kw[x]) for x in self.names if x in env.kw]
        return z3.And(*cs) if cs else z3.BoolVal(True)
    def real(self, call):
        return not (frozenset(call[1]) & frozenset(self.names))


class NLe(F):
    """n <= bound (used to keep hidden-argument expansions finite)."""
    def __init__(self, bound): self.bound = bound
    def z3(self, env): return env.n <= self.bound
    def real(self, call): return call[0] <= self.bound


# ------------------------------------------------------------------ solver side

class Env(object):
    def __init__(self, names, consts=()):
        import z3
        self.names = tuple(names)
        self.n = z3.Int('n')
        self.kw = dict((x, z3.Bool('kw_' + x)) for x in self.names)
        self.fo = z3.Bool('fo')
        self._consts = dict((c, z3.Int('k_' + c)) for c in consts)

    def const(self, name):
        return self._consts[name]


class Solver(object):
    """One incremental z3 solver per process; counts queries and solver time."""
    def __init__(self, timeout_ms=10000):
        import z3
        self.z3 = z3
        self.s = z3.Solver()
        self.s.set('timeout', timeout_ms)
        self.queries = 0; self.sat = 0; self.unsat = 0; self.unknown = 0
        self.seconds = 0.0
        self.smt2_samples = []
        self.sample_every = 997

    def find(self, names, formula, consts=None):
        """-> ('unsat', None) | ('sat', call) | ('unknown', None).
        consts: {name: (lo, hi)} integer constants quantified existentially with the call."""
        import time
        z3 = self.z3
        env = get_env(names, consts or ())
        self.s.push()
        t0 = time.perf_counter()
        try:
            self.s.add(env.n >= 0)
            for c, (lo, hi) in (consts or {}).items():
                if lo is not None:
                    self.s.add(env.const(c) >= lo)
                if hi is not None:
                    self.s.add(env.const(c) <= hi)
            self.s.add(formula.z3(env))
            self.queries += 1
            smt2 = None
            if self.queries % self.sample_every == 1 and len(self.smt2_samples) < 40:
                smt2 = self.s.to_smt2()
            r = str(self.s.check())
            if smt2 is not None:
                self.smt2_samples.append((r, smt2))
            if r == 'unsat':
                self.unsat += 1
                return 'unsat', None
            if r != 'sat':
                self.unknown += 1
                return 'unknown', None
            self.sat += 1
            m = self.s.model()
            n = m.eval(env.n, model_completion=True).as_long()
            kws = sorted(x for x in env.names
                         if z3.is_true(m.eval(env.kw[x], model_completion=True)))
            fo = bool(z3.is_true(m.eval(env.fo, model_completion=True)))
            call = [n, kws, fo]
            if consts:
                call.append(dict((c, m.eval(env.const(c), model_completion=True).as_long())
                                 for c in consts))
            return 'sat', call
        finally:
            self.seconds += time.perf_counter() - t0
            self.s.pop()

    def stats(self):
        return dict(queries=self.queries, sat=self.sat, unsat=self.unsat,
                    unknown=self.unknown, solver_s=round(self.seconds, 3))


def norm_call(call):
    """JSON witness -> tuple usable by .real()."""
    t = (int(call[0]), frozenset(call[1]), bool(call[2]))
    if len(call) > 3:
        t += (dict(call[3]),)
    return t


def render_call(call):
    s = 'n=%d kw={%s}%s' % (call[0], ','.join(sorted(call[1])), ' +foreign-kw' if call[2] else '')
    if len(call) > 3 and call[3]:
        s += ' consts=%r' % (call[3],)
    return s
