"""symx — solver-driven checking of the real sigtools code.

sym        decision source (symbolic under CrossHair, concrete in replay)
driver     CrossHair path loop, cube split over 16 workers, exhaustion bookkeeping
callshape  z3 theory of CPython argument binding over call shapes + real-call evaluation
universe   signature universe U(K, P) decoded from decisions
report     evidence / replay files / known findings / exit codes
"""
