"""Oracle self-validation, run at the start of every check: the z3 call-shape theory against
*really calling* functions, on a fixed slice of (def-list, call) cases; the forwarding model
(Exec / Fwd) against really executing generated wrappers.  Any disagreement makes the run
untrustworthy (exit 3)."""
import itertools
import time

from .callshape import (Shape, Acc, Exec, Site, Solver, Env, accept_py, accept_z3, materialise,
                        really_accepts, build_wrapper, And, Const)


def _structs(K):
    for n in range(K + 1):
        for kinds in itertools.combinations_with_replacement([0, 1, 2], n):
            for ds in itertools.product([False, True], repeat=n):
                need = False; ok = True
                for k, d in zip(kinds, ds):
                    if k < 2:
                        if need and not d:
                            ok = False
                        need = need or d
                if not ok:
                    continue
                for va, vk in itertools.product([False, True], repeat=2):
                    yield kinds, ds, va, vk


def _shape(struct, names):
    kinds, ds, va, vk = struct
    po = []; pok = []; kwo = []
    for nm, k, d in zip(names, kinds, ds):
        (po, pok, kwo)[k].append((nm, d))
    return Shape(po, pok, 'args' if va else None, kwo, 'kwargs' if vk else None)


def run():
    import z3
    t0 = time.time()
    names = ('q', 'e')
    mism = []
    cases = 0
    s = z3.Solver()
    env = Env(names)
    for struct in _structs(2):
        sh = _shape(struct, names)
        fn = materialise(sh)
        f = accept_z3(sh, env.n, env.kw, env.fo)
        for n in range(4):
            for kws in ((), ('q',), ('e',), ('q', 'e')):
                for fo in (False, True):
                    cases += 1
                    real = really_accepts(fn, n, kws, fo)
                    py = accept_py(sh, n, frozenset(kws), fo)
                    s.push()
                    s.add(env.n == n, env.fo == fo, *[env.kw[x] == (x in kws) for x in names])
                    s.add(f)
                    th = str(s.check()) == 'sat'
                    s.pop()
                    if not (real == py == th):
                        mism.append((repr(sh), n, kws, fo, real, py, th))
    # forwarding model vs really executing a wrapper
    fwd_cases = 0
    outers = [_shape(st, ('q',)) for st in _structs(1)]
    inners = [_shape(st, ('e',)) for st in _structs(1)] + [_shape(st, ('q',)) for st in _structs(1)]
    sites = [Site(k, nm, uva, uvk) for k in (0, 1) for nm in ((), ('e',))
             for uva in (False, True) for uvk in (False, True)]
    names2 = ('q', 'e')
    env2 = Env(names2)
    combo = 0
    for o in outers:
        for i in inners:
            for site in sites:
                if (site.use_va and not o.va) or (site.use_vk and not o.vk):
                    continue
                combo += 1
                if combo % 41:
                    continue
                ex = Exec(o, [(site, i)])
                f = ex.z3(env2)
                for n in range(4):
                    for kws in ((), ('q',), ('e',), ('q', 'e')):
                        for fo in (False, True):
                            fwd_cases += 1
                            real = ex.real((n, frozenset(kws), fo))
                            s.push()
                            s.add(env2.n == n, env2.fo == fo, *[env2.kw[x] == (x in kws) for x in names2])
                            s.add(f)
                            th = str(s.check()) == 'sat'
                            s.pop()
                            if real != th:
                                mism.append(('exec', repr(o), repr(i), repr(site), n, kws, fo, real, th))
    return dict(ok=not mism, accept_cases=cases, exec_cases=fwd_cases, mismatches=mism[:5],
                seconds=round(time.time() - t0, 2))
