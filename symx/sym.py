"""Decision source shared by every harness.

Two modes:

* ``symbolic`` — running inside a CrossHair path (symx.driver).  ``flip`` creates a
  fresh z3 Boolean and branches on it (CrossHair/z3 decide feasibility and pick an
  unexplored side); ``sym_int`` / ``sym_val`` create z3 integers that stay symbolic
  along the path.
* ``replay`` — CrossHair and z3 are *not imported*; decisions are read from a recorded
  list.  Used by symx.replay to confirm a counterexample against the real code.

The first ``len(prefix)`` flips of a path are answered from the worker's *cube*; see
``owns_path`` for the partition rule (DESIGN.md 3.2).
"""
import contextlib

MODE = 'replay'          # set to 'symbolic' by the driver inside worker processes


class _State:
    __slots__ = ('n', 'flips', 'prefix', 'used', 'trace', 'replay', 'sealed')

    def __init__(self):
        self.n = 0           # draws so far (names of z3 variables derive from it)
        self.flips = 0       # flips so far (the first len(prefix) are answered by the cube)
        self.prefix = ()
        self.used = 0
        self.trace = []      # per draw: bool | ('int', obj-or-int)
        self.replay = None   # list of recorded decisions (replay mode)
        self.sealed = False  # set by seal(): no further draws allowed on this path


st = _State()


class ReplayExhausted(Exception):
    """The recorded decision list is shorter than what the harness draws."""

    def __init__(self, index, kind='flip', lo=None, hi=None):
        Exception.__init__(self, index, kind, lo, hi)
        self.index = index; self.kind = kind; self.lo = lo; self.hi = hi


def begin_path(prefix=(), replay=None):
    st.n = 0
    st.flips = 0
    st.prefix = tuple(prefix)
    st.used = 0
    st.trace = []
    st.replay = replay
    st.sealed = False


class SealedDraw(Exception):
    """A harness drew a decision after promising (seal) that its structure was complete."""


def seal():
    """Promise that no further decision is drawn; lets the driver test ownership early."""
    st.sealed = True


def _crosshair():
    from crosshair.core import proxy_for_type, realize
    from crosshair.tracers import NoTracing
    from crosshair.statespace import context_statespace
    return proxy_for_type, realize, NoTracing, context_statespace


def concrete():
    """Context for calling sigtools on inputs that hold NO symbolic value: CrossHair's interception is
    suspended (the same real code runs on the same path, ~20x faster); the solver's work on such a
    path is the structure decisions before it and the call-shape queries after it."""
    return notrace()


def notrace():
    """Context in which CrossHair does not intercept (concrete bookkeeping, z3 queries)."""
    if MODE == 'symbolic':
        from crosshair.tracers import NoTracing
        return NoTracing()
    return contextlib.nullcontext()


def flip(tag='b'):
    if st.sealed:
        raise SealedDraw(tag)
    i = st.n
    st.n += 1
    if MODE != 'symbolic':
        if st.replay is None or i >= len(st.replay):
            raise ReplayExhausted(i)
        v = bool(st.replay[i])
        st.trace.append(v)
        return v
    if st.flips < len(st.prefix):
        v = bool(st.prefix[st.flips])
        st.flips += 1
        st.used = st.flips
        st.trace.append(v)
        return v
    st.flips += 1
    proxy_for_type, realize, NoTracing, _ = _crosshair()
    with NoTracing():
        b = proxy_for_type(bool, '%s%d' % (tag, i))
    v = bool(b)              # fork decided by z3
    st.trace.append(v)
    return v


def pick(n, tag='c'):
    """Uniform choice in range(n) by binary splitting (log2 n solver decisions)."""
    lo, hi = 0, n
    while hi - lo > 1:
        mid = (lo + hi) // 2
        if flip(tag):
            lo = mid
        else:
            hi = mid
    return lo


def choose(seq, tag='c'):
    return seq[pick(len(seq), tag)]


def owns_path():
    """True iff the current cube owns this path: unused prefix bits are all zero."""
    return not any(st.prefix[st.used:])


def sym_int(lo, hi, tag='i'):
    """Integer in [lo, hi] that stays symbolic along the path (bounds asserted in z3)."""
    if st.sealed:
        raise SealedDraw(tag)
    i = st.n
    st.n += 1
    if MODE != 'symbolic':
        if st.replay is None or i >= len(st.replay):
            raise ReplayExhausted(i, 'int', lo, hi)
        v = int(st.replay[i])
        st.trace.append(('int', v))
        if lo is None and hi is None:
            # opaque value (default / annotation / argument): replayed as a FRESH int object outside the interned
            # range, with the model's equalities preserved — under CrossHair two symbolic values are two objects
            # too, and `is`-vs-`==` mistakes must reproduce
            return int(str(v * 7 + 1000003))
        return v
    proxy_for_type, realize, NoTracing, context_statespace = _crosshair()
    from crosshair.libimpl.builtinslib import SymbolicBoundedInt
    with NoTracing():
        # built directly (not proxy_for_type): CrossHair's factory may *prematurely realise* an int
        # it saw realised on earlier paths, which would silently turn the symbolic into a sample
        x = SymbolicBoundedInt('%s%d' % (tag, i), int, lo, hi)
    st.trace.append(('int', x))
    return x


def sym_val(tag='v'):
    """Unbounded symbolic integer used as an opaque *value* (default, annotation, argument)."""
    return sym_int(None, None, tag)


def is_symbolic(x):
    return MODE == 'symbolic' and hasattr(type(x), '__ch_realize__')


def realize(x):
    if MODE == 'symbolic':
        from crosshair.core import realize as _r
        return _r(x)
    return x


def deep_realize(x):
    if MODE == 'symbolic':
        from crosshair.core import deep_realize as _r
        return _r(x)
    return x


def _model_value(space, x):
    import z3
    v = space.solver.model().eval(x.var, model_completion=True)
    if z3.is_int_value(v):
        return v.as_long()
    if z3.is_true(v) or z3.is_false(v):
        return bool(z3.is_true(v))
    return None


def pin(values):
    """Concrete values for symbolic integers WITHOUT forking the search: one model of the path
    condition is taken and each value is then asserted on this path only (no decision node is
    created, so the other values are not enumerated by later paths — CrossHair's realize() would).
    Only used on a path that is about to be reported."""
    if MODE != 'symbolic':
        return [int(v) for v in values]
    proxy_for_type, realize, NoTracing, context_statespace = _crosshair()
    out = []
    with NoTracing():
        space = context_statespace()
        for x in values:
            if not hasattr(x, 'var'):
                out.append(int(x))
                continue
            if str(space.solver.check()) != 'sat':
                raise RuntimeError('path condition not satisfiable while pinning')
            v = _model_value(space, x)
            space.add(x.var == v)
            out.append(v)
    return out


def concretize(obj, depth=0):
    """Plain-data copy of a report structure: symbolic ints/bools are replaced by their pinned /
    model values, anything else symbolic by a placeholder.  Never forks."""
    if MODE != 'symbolic':
        return obj
    proxy_for_type, realize, NoTracing, context_statespace = _crosshair()
    with NoTracing():
        return _concretize(obj, context_statespace(), 0)


def _concretize(obj, space, depth):
    import collections.abc as abc
    if depth > 6:
        return '...'
    if isinstance(obj, (str, int, float, bool, type(None))) and not hasattr(type(obj), '__ch_realize__'):
        return obj
    if hasattr(obj, 'var') and hasattr(type(obj), '__ch_realize__'):
        try:
            if str(space.solver.check()) == 'sat':
                v = _model_value(space, obj)
                if v is not None:
                    space.add(obj.var == v)
                    return v
        except Exception:
            pass
        return '<symbolic %s>' % type(obj).__name__
    try:
        if isinstance(obj, abc.Mapping):
            return dict((_concretize(k, space, depth + 1), _concretize(v, space, depth + 1))
                        for k, v in list(obj.items()))
        if isinstance(obj, (abc.Sequence, abc.Set)) and not isinstance(obj, (str, bytes)):
            return [_concretize(v, space, depth + 1) for v in list(obj)]
    except BaseException as e:
        if not isinstance(e, Exception):
            return '<unrenderable %s>' % type(obj).__name__
        return '<unrenderable %s>' % type(obj).__name__
    if hasattr(type(obj), '__ch_realize__'):
        return '<symbolic %s>' % type(obj).__name__
    try:
        return repr(obj)[:200]
    except BaseException:
        return '<%s>' % type(obj).__name__


def decisions():
    """The decision list of the current path; symbolic integers get the values of one model of the
    path condition (pinned, not enumerated)."""
    ints = [d[1] for d in st.trace if isinstance(d, tuple)]
    vals = iter(pin(ints))
    out = []
    for d in st.trace:
        if isinstance(d, tuple):
            out.append(int(next(vals)))
        else:
            out.append(bool(d))
    return out


def resumed():
    """Context that makes sure tracing is ON (harness code reached from inside a CrossHair-patched
    builtin runs untraced, where operations on symbolic values are not allowed)."""
    if MODE == 'symbolic':
        from crosshair.tracers import ResumedTracing, is_tracing
        if not is_tracing():
            return ResumedTracing()
    return contextlib.nullcontext()


def ignore_path():
    """Abandon this path as 'precondition not met' (not counted, not a failure)."""
    if MODE == 'symbolic':
        from crosshair.util import IgnoreAttempt
        raise IgnoreAttempt('harness precondition')
    raise ReplayExhausted('ignored path')
