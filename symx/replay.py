"""Confirm a counterexample against the real code, with CrossHair and z3 *not imported*.

usage: python -m symx.replay <replay.json>      -> prints REPRODUCED / NOT-REPRODUCED, exit 0 / 4

The replay file holds the harness, its configuration, the decision list of the failing path
(symbolic integers realised from the solver's model), the label of the failed obligation and, for
call-shape obligations, the witness call found by z3.  The harness is re-run with decisions read
from the list; the obligation is evaluated by really calling ``def`` functions.
"""
import importlib
import json
import os
import sys


def run(path, verbose=True):
    with open(path) as f:
        rp = json.load(f)
    here = os.path.dirname(os.path.dirname(os.path.abspath(__file__)))
    if here not in sys.path:
        sys.path.insert(0, here)
    from symx import sym, driver
    sym.MODE = 'replay'
    mod = importlib.import_module(rp['harness_mod'])
    fn = getattr(mod, rp['fn'])
    ctx = driver.Ctx('replay', target=dict(label=rp['label'], witness=rp.get('witness')), cfg=rp['cfg'])
    sym.begin_path((), replay=rp['decisions'])
    err = None
    try:
        fn(ctx, rp['cfg'])
    except sym.ReplayExhausted as e:
        err = 'replay diverged: %r' % (e,)
    except Exception as e:    # an exception the harness did not expect is itself the finding when
        import traceback      # the recorded label says so
        err = 'exception %s' % traceback.format_exc()[-800:]
    assert 'crosshair' not in sys.modules and 'z3' not in sys.modules, 'replay must not use the solver stack'
    ok = bool(ctx.reproduced)
    if verbose:
        print(('REPRODUCED' if ok else 'NOT-REPRODUCED'), 'property=%s' % rp.get('property'),
              'label=%s' % rp['label'])
        print('  case   :', ctx.case_text)
        if rp.get('witness') is not None:
            from symx import callshape
            print('  witness:', callshape.render_call(rp['witness']))
        if rp.get('info') is not None:
            print('  info   :', json.dumps(rp['info'], default=repr)[:600])
        if err:
            print('  note   :', err)
    return ok


if __name__ == '__main__':
    sys.exit(0 if run(sys.argv[1]) else 4)
