"""Forwarding-program grammar (DESIGN.md 3.5): module texts with a wrapper that forwards *args/**kwargs,
drawn production by production from solver decisions, together with the generator's GROUND TRUTH:
what each forwarding call passes (for the execution model) and the equivalent explicit declaration
(for C06).  The grammar is data: every production has a name that is counted into the evidence.
"""
import linecache

from . import sym
from . import universe as U
from .callshape import Shape, Site

FOREIGN_KW = 'zk'             # a keyword no generated callee declares

CONTEXTS = ('return', 'assign', 'expr', 'if', 'try', 'with', 'listcomp', 'genexp', 'nested-def', 'lambda',
            'decoy-arg', 'decoy-kw', 'decoy-star',
            'nested-shadow-kw', 'nested-shadow-kw-posonly', 'nested-shadow-va-posonly',
            'nested-shadow-kw-kwonly', 'nested-shadow-va-kwonly', 'nested-shadow-kw-varkw', 'nested-shadow-va-vararg',
            'lambda-shadow-kw-kwonly', 'lambda-shadow-va',
            'listcomp-target-shadows-kw', 'genexp-target-shadows-va', 'dictcomp-target-shadows-kw',
            'loop-assign', 'except-handler', 'try-else', 'finally', 'for-body', 'while-body', 'match-case', 'ternary', 'with-as')
# further statement contexts given as a template around the call (one call site each)
TEMPLATES = {'except-handler': 'try:\n    raise ValueError()\nexcept ValueError as _exc:\n    return %s',
             'try-else': 'try:\n    pass\nexcept ValueError:\n    raise\nelse:\n    return %s',
             'finally': 'try:\n    pass\nfinally:\n    return %s',
             'for-body': 'for _i in (0,):\n    return %s',
             'while-body': 'while BR[0]:\n    return %s',
             'match-case': 'match 0:\n    case _:\n        return %s',
             'ternary': 'return %s if BR[0] else None',
             'with-as': 'with CM() as _cm:\n    return %s'}
# nested defs / lambdas whose own parameter shadows a star of the wrapper: the call then forwards a different variable
# (star shadowed, body template around the call)
SHADOWS = {'nested-shadow-kw': ('vk', 'def _inner(kwargs):\n    return %s\nreturn _inner({})'),
           'nested-shadow-kw-posonly': ('vk', 'def _inner(kwargs, /):\n    return %s\nreturn _inner({})'),
           'nested-shadow-va-posonly': ('va', 'def _inner(args, /):\n    return %s\nreturn _inner(())'),
           'nested-shadow-kw-kwonly': ('vk', 'def _inner(*, kwargs):\n    return %s\nreturn _inner(kwargs={})'),
           'nested-shadow-va-kwonly': ('va', 'def _inner(*, args):\n    return %s\nreturn _inner(args=())'),
           'nested-shadow-kw-varkw': ('vk', 'def _inner(**kwargs):\n    return %s\nreturn _inner()'),
           'nested-shadow-va-vararg': ('va', 'def _inner(*args):\n    return %s\nreturn _inner()'),
           'lambda-shadow-kw-kwonly': ('vk', 'return (lambda *, kwargs: %s)(kwargs={})'),
           'lambda-shadow-va': ('va', 'return (lambda args: %s)(())'),
           # comprehension targets are bound before the element is evaluated
           'listcomp-target-shadows-kw': ('vk', 'return [%s for kwargs in ({},)][0]'),
           'genexp-target-shadows-va': ('va', 'return list(%s for args in ((),))[0]'),
           'dictcomp-target-shadows-kw': ('vk', 'return {0: %s for kwargs in ({},)}[0]')}
ROUTES = ('global', 'closure', 'closure-shadowing-global', 'attribute', 'self', 'param-partial', 'wraps')
UNRESOLVABLE = ('missing-global', 'non-callable', 'unset-attribute',
                'local-def-shadowing-global', 'local-lambda-shadowing-global')   # the callee is a local of the wrapper
DECLARED = ('declared-function', 'declared-method', 'declared-method-dotted', 'declared-super', 'declared-apply-super')
# expressions used as the first fixed positional argument of the forwarding call:
# (production, text, star it taints, star the outer must own)
ARG_EXPRS = (('arg-const', '10', None, None), ('arg-pops-kwargs', "kwargs.pop('%s', None)" % FOREIGN_KW, 'vk', 'vk'),
             ('arg-hands-kwargs-off', 'observe(kwargs)', 'vk', 'vk'), ('arg-len-args', 'len(args)', None, 'va'),
             ('arg-walrus-rebinds-args', '(args := ())', 'va', 'va'))
STAR_FORMS = ('pristine', 'absent', 'foreign', 'doubled')

# taint statements: (production name, star, statement text, taints?)  — "taints" is the ground truth
TAINTS_KW = (
    ('kw-rebind-copy', 'kwargs = dict(kwargs)'),
    ('kw-rebind-empty', 'kwargs = {}'),
    ('kw-augassign', 'kwargs |= {}'),
    ('kw-item-store', "kwargs['%s'] = 1" % FOREIGN_KW),
    ('kw-item-del', "kwargs.pop('%s', None)" % FOREIGN_KW),
    ('kw-update', 'kwargs.update({})'),
    ('kw-hand-off', 'observe(kwargs)'),
    ('kw-hand-off-keyword', 'observe(options=kwargs)'),
    ('kw-hand-off-in-list', 'observe([kwargs])'),
    ('kw-hand-off-in-dict', "observe({'k': kwargs})"),
    ('kw-hand-off-starred', 'observe(*[kwargs])'),
    ('kw-stored-attribute', 'holder = CM()\nholder.v = kwargs\nholder.v.clear()'),
    ('kw-alias-mutated', 'alias = kwargs\nalias.clear()'),
    ('kw-setdefault', "kwargs.setdefault('%s', 1)" % FOREIGN_KW),
    ('kw-clear', 'kwargs.clear()'),
    ('kw-import-as', 'import functools as kwargs'),
    ('kw-class-named', 'class kwargs(object):\n    pass'),
    ('kw-match-mapping-rest', "match {'a': 1}:\n    case {**kwargs}:\n        pass"),
    ('kw-match-as-capture', 'match {}:\n    case kwargs:\n        pass'),
    ('kw-item-del-stmt', "kwargs['%s'] = 1\ndel kwargs['%s']" % (FOREIGN_KW, FOREIGN_KW)),
    ('kw-for-target', 'for kwargs in ({},):\n    pass'),
    ('kw-with-as', 'with CM({}) as kwargs:\n    pass'),
    ('kw-walrus', '(kwargs := {})'),
    ('kw-nonlocal', 'def _rebind():\n    nonlocal kwargs\n    kwargs = {}\n_rebind()'),
    # mutation reached through a nested scope, a default value, a decorator expression or a bound method
    ('kw-nested-def-mutates-then-called', "def _g():\n    kwargs.pop('%s', None)\n_g()" % FOREIGN_KW),
    ('kw-nested-def-hands-off-then-called', 'def _g():\n    observe(kwargs)\n_g()'),
    ('kw-default-alias-mutated', 'def _g(d=kwargs):\n    d.clear()\n_g()'),
    ('kw-kwonly-default-alias-mutated', 'def _g(*, d=kwargs):\n    d.clear()\n_g()'),
    ('kw-lambda-default-alias-mutated', '_g = lambda d=kwargs: d.clear()\n_g()'),
    ('kw-decorator-expression-mutates', "@(lambda _v: (lambda _f: _f))(kwargs.pop('%s', None))\ndef _g():\n    pass" % FOREIGN_KW),
    ('kw-bound-method-alias', "_p = kwargs.pop\n_p('%s', None)" % FOREIGN_KW),
)
TAINTS_VA = (
    ('va-rebind-slice', 'args = args[1:]'),
    ('va-rebind-empty', 'args = ()'),
    ('va-augassign', 'args += ()'),
    ('va-for-target', 'for args in ((),):\n    pass'),
    ('va-with-as', 'with CM(()) as args:\n    pass'),
    ('va-walrus', '(args := ())'),
    ('va-nonlocal', 'def _rebind():\n    nonlocal args\n    args = ()\n_rebind()'),
    ('va-tuple-unpack-target', 'args, _rest = (), None'),
    ('va-star-unpack-target', '*args, _last = (1,)'),
    ('va-except-as', 'try:\n    raise KeyError(1)\nexcept KeyError as args:\n    pass'),
    ('va-import-as', 'import functools as args'),
    ('va-nested-def-named', 'def args():\n    pass'),
    ('va-match-star-capture', 'match (1, 2):\n    case (_, *args):\n        pass'),
)
# statements that look at a star without changing what it denotes (ground truth: still pristine)
NON_TAINTS = (
    ('va-hand-off-immutable', 'observe(args)'),
    ('va-len', 'n_args = len(args)'),
    ('va-hand-off-keyword', 'observe(seq=args)'),
    ('va-iterate', 'for _item in args:\n    pass'),
    ('va-index', 'first = args[0] if args else None'),
    ('unrelated-local', 'unrelated = 1 + 2'),
    ('unrelated-call', 'observe(1)'),
)

PRELUDE = '''
import functools

BR = [True]

class CM(object):
    def __init__(self, v=None):
        self.v = v
    def __enter__(self):
        return self.v
    def __exit__(self, *exc):
        return False

def observe(*a, **k):
    return None

def checked_partial(p):
    import inspect
    try:
        inspect.signature(p)
    except ValueError as e:
        raise TypeError(str(e))
    return p

def ident(x=None, *rest, **more):
    return x

other_args = ()
other_kwargs = {}
'''


class Prog(object):
    """One generated program and its ground truth."""

    def __init__(self):
        self.text = ''
        self.outer = None          # Shape of the callable under test as seen by its caller
        self.outer_spec = None
        self.callee_spec = None
        self.callee = None         # Shape
        self.sites = []            # [(Site, callee Shape)] : what executes (pristine reading)
        self.star_forms = {}       # 'va' / 'vk' -> form at the (first) site incl. 'tainted'
        self.decl = None           # dict(k, names, use_varargs, use_varkwargs, hide_args, hide_kwargs) or None
        self.resolvable = True
        self.route = None
        self.context = None
        self.features = []         # production names reached
        self.objs = {}             # after build(): f (callable under test), wrapper (function), callee (callable)
        self.n_sites = 1
        self.emulate = False
        self.partial = False
        self.argexpr = None

    def label(self):
        return ' '.join(self.features)


def _indent(text, n=1):
    pad = '    ' * n
    return '\n'.join(pad + line if line else line for line in text.split('\n'))


def _call_args(k, names, va_form, vk_form, first=None):
    parts = [str(10 + i) for i in range(k)]
    if k and first is not None:
        parts[0] = first
    if va_form == 'pristine':
        parts.append('*args')
    elif va_form == 'foreign':
        parts.append('*other_args')
    elif va_form == 'doubled':
        parts += ['*args', '*other_args']
    parts += ['%s=%d' % (nm, 20 + i) for i, nm in enumerate(names)]
    if vk_form == 'pristine':
        parts.append('**kwargs')
    elif vk_form == 'foreign':
        parts.append('**other_kwargs')
    elif vk_form == 'doubled':
        parts += ['**kwargs', '**other_kwargs']
    return parts


def _call_text(callee_expr, k, names, va_form, vk_form, first=None):
    return '%s(%s)' % (callee_expr, ', '.join(_call_args(k, names, va_form, vk_form, first)))


GROUPS = ('shapes', 'contexts', 'taints', 'unresolvable')      # + 'declared' (C04), 'full'


def draw(cfg):
    """Draw one program.  The first decision picks a *focus group* (sum, not product, of the dimensions):

    shapes        every star form x fixed positionals x keyword names x outer x callee; global route, `return`
    contexts      every statement context x every route; both stars pristine or one absent
    taints        every taint / non-taint statement before and after the call (assign context); global route
    unresolvable  every unresolvable kind x every context

    cfg: groups, Ko, Kc (named parameters of outer / callee), kmax, nmax; 'full' adds the full cross product."""
    p = Prog()
    groups = cfg.get('groups', GROUPS)
    group = groups[sym.pick(len(groups), 'group')] if len(groups) > 1 else groups[0]
    p.features.append('group:' + group)
    contexts = CONTEXTS; routes = ROUTES; forms = STAR_FORMS
    g = dict(cfg)
    if isinstance(cfg.get(group), dict):
        g.update(cfg[group])          # per-group overrides: cfg['taints'] = dict(Ko=0, ...)
    Ko, Kc, kmax, nmax = g.get('Ko', 1), g.get('Kc', 2), g.get('kmax', 1), g.get('nmax', 1)
    taints = False; unres_on = False
    if group == 'shapes':
        contexts = ('return',); routes = ('global',)
    elif group == 'contexts':
        forms = ('pristine', 'absent')
    elif group == 'taints':
        contexts = ('assign', 'loop-assign'); routes = ('global',); forms = ('pristine', 'absent'); taints = True
    elif group == 'unresolvable':
        routes = ('global',); forms = ('pristine', 'absent'); unres_on = True
        contexts = ('return', 'assign', 'if', 'nested-def', 'lambda', 'listcomp', 'except-handler', 'loop-assign')
    elif group == 'full':
        taints = True
    elif group == 'declared':
        contexts = ('return',); routes = DECLARED; forms = ('pristine', 'absent', 'foreign')
    if 'form_list' in g:
        forms = tuple(g['form_list'])
    if 'ctx_list' in g:
        contexts = tuple(g['ctx_list'])
    if 'route_list' in g:
        routes = tuple(g['route_list'])
    # ---- what the site does with each star
    va_form = forms[sym.pick(len(forms), 'vaform')]
    vk_form = forms[sym.pick(len(forms), 'vkform')]
    need_va = va_form in ('pristine', 'doubled')
    need_vk = vk_form in ('pristine', 'doubled')
    ospec = U.gen_struct(Ko, need_va, need_vk)
    ospec.names = tuple(U.POOL[:len(ospec.kinds)])
    cspec = U.gen_struct(Kc)
    U.gen_names(cspec, list(ospec.names), 1)
    k = sym.pick(kmax + 1, 'k') if kmax else 0
    pool = [nm for nm, kd in zip(cspec.names, cspec.kinds) if kd > 0] + [FOREIGN_KW]
    names = ()
    if nmax and sym.flip('hasname'):
        names = (pool[sym.pick(len(pool), 'name')],)
        if nmax > 1 and sym.flip('hasname2'):
            rest = [x for x in pool if x not in names]
            if rest:
                names += (rest[sym.pick(len(rest), 'name2')],)
    if k and g.get('argexprs', group in ('shapes', 'taints', 'full')):
        cand = [e for e in ARG_EXPRS if e[3] is None or (e[3] == 'vk' and ospec.vk) or (e[3] == 'va' and ospec.va)]
        p.argexpr = cand[sym.pick(len(cand), 'argexpr')] if len(cand) > 1 else cand[0]
    unres = None
    if unres_on:
        unres = UNRESOLVABLE[sym.pick(len(UNRESOLVABLE), 'unreskind')]
        route = 'global'
    else:
        route = routes[sym.pick(len(routes), 'route')] if len(routes) > 1 else routes[0]
    context = contexts[sym.pick(len(contexts), 'context')] if len(contexts) > 1 else contexts[0]
    if p.argexpr is not None and p.argexpr[0] == 'arg-walrus-rebinds-args' and context == 'genexp-target-shadows-va':
        p.argexpr = ARG_EXPRS[0]      # (a walrus may not rebind the comprehension's own iteration variable: SyntaxError)
    taint = None
    taint_after = False
    if taints and context in ('assign', 'loop-assign'):
        table = [None]
        if ospec.va:
            table += [('va',) + t for t in TAINTS_VA]
        if ospec.vk:
            table += [('vk',) + t for t in TAINTS_KW]
        table += [(None,) + t for t in NON_TAINTS]
        taint = table[sym.pick(len(table), 'taintkind')]
        if taint is not None:
            taint_after = sym.flip('after')
    if group == 'declared':
        p.emulate = sym.flip('emulate')
        p.partial = sym.flip('partial') if (route == 'declared-function' and g.get('partial', True)) else False
    return assemble(p, ospec, cspec, k, names, va_form, vk_form, route, context, taint, taint_after, unres)


def assemble(p, ospec, cspec, k, names, va_form, vk_form, route, context, taint, taint_after, unres):
    p.outer_spec, p.callee_spec = ospec, cspec
    p.route, p.context = route, context
    p.features += ['route:' + (unres or route), 'ctx:' + context, 'va:' + va_form, 'vk:' + vk_form,
                  'k:%d' % k, 'names:%d' % len(names)]
    # ---- ground truth for the stars
    eff = {'va': va_form, 'vk': vk_form}
    if taint is not None:
        star, tname, ttext = taint
        p.features.append('taint:%s:%s' % (tname, 'after' if taint_after else 'before'))
        # (in a loop body a statement after the call runs before the call of the next iteration)
        if star is not None and (not taint_after or context == 'loop-assign') and eff[star] in ('pristine', 'doubled'):
            eff[star] = 'tainted'
    else:
        p.features.append('taint:none')
    if p.argexpr is not None:
        p.features.append(p.argexpr[0])
        if p.argexpr[2] is not None and eff[p.argexpr[2]] in ('pristine', 'doubled'):
            eff[p.argexpr[2]] = 'tainted'       # arguments are evaluated before the stars are unpacked
    if context in SHADOWS and eff[SHADOWS[context][0]] in ('pristine', 'doubled'):
        eff[SHADOWS[context][0]] = 'tainted'
    p.star_forms = eff

    def flags(form):
        if form == 'pristine':
            return True, False
        if form == 'absent':
            return False, False
        return False, True      # foreign, doubled, tainted
    uva, hva = flags(eff['va'])
    uvk, hvk = flags(eff['vk'])
    p.decl = dict(k=k, names=tuple(names), use_varargs=uva, use_varkwargs=uvk, hide_args=hva, hide_kwargs=hvk)
    p.resolvable = unres is None

    # ---- text
    callee_def = 'def callee(%s):\n    return None\n' % cspec.deflist()
    callee_expr = 'callee'
    if unres == 'missing-global':
        callee_expr = 'missing_callee'
    elif unres == 'non-callable':
        callee_expr = 'not_callable'
    elif unres == 'unset-attribute':
        callee_expr = 'ns.missing'
    if route == 'attribute':
        callee_expr = 'ns.sub.f'
    elif route == 'self':
        callee_expr = 'self.callee'
    elif route == 'param-partial':
        callee_expr = 'fn'
    elif route in ('declared-method', 'declared-method-dotted'):
        callee_expr = 'self.callee'
    elif route == 'declared-super':
        callee_expr = 'super().wrapper'
    elif route == 'declared-apply-super':
        callee_expr = 'super(K, self).wrapper'
    if route == 'declared-method-dotted':
        callee_expr = 'self.a.b.callee'
    call = _call_text(callee_expr, k, names, va_form, vk_form, p.argexpr[1] if p.argexpr else None)
    if p.partial:
        # the wrapper hands its arguments to functools.partial(callee, ...): nothing is bound yet, CPython only
        # rejects surplus arguments (observed through inspect.signature of the partial object)
        call = 'checked_partial(functools.partial(%s))' % ', '.join(['callee'] + _call_args(k, names, va_form, vk_form))
        p.features.append('partial')
    if p.emulate:
        p.features.append('emulate')
    p.n_sites = 1
    if context == 'return':
        body = 'return ' + call
    elif context == 'assign':
        stmts = []
        if taint is not None and not taint_after:
            stmts.append(taint[2])
        stmts.append('result = ' + call)
        if taint is not None and taint_after:
            stmts.append(taint[2])
        stmts.append('return result')
        body = '\n'.join(stmts)
    elif context == 'loop-assign':
        stmts = []
        if taint is not None and not taint_after:
            stmts.append(taint[2])
        stmts.append('result = ' + call)
        if taint is not None and taint_after:
            stmts.append(taint[2])
        body = 'result = None\nfor _i in (0, 1):\n%s\nreturn result' % _indent('\n'.join(stmts))
    elif context == 'expr':
        body = call + '\nreturn None'
    elif context == 'if':
        body = 'if BR[0]:\n    return %s\nelse:\n    return %s' % (call, call)
        p.n_sites = 2
    elif context == 'try':
        body = 'try:\n    result = %s\nfinally:\n    observe(2)\nreturn result' % call
    elif context == 'with':
        body = 'with CM():\n    return %s' % call
    elif context == 'listcomp':
        body = 'return [%s for _i in (0,)]' % call
    elif context == 'genexp':
        body = 'return list(%s for _i in (0,))' % call
    elif context == 'nested-def':
        body = 'def _inner():\n    return %s\nreturn _inner()' % call
    elif context == 'lambda':
        body = 'return (lambda: %s)()' % call
    elif context == 'decoy-arg':
        body = 'return ident(%s)' % call
    elif context == 'decoy-kw':
        body = 'return ident(x=%s)' % call
    elif context == 'decoy-star':
        body = 'return ident(*[%s])' % call
    elif context in SHADOWS:
        body = SHADOWS[context][1] % call
    elif context in TEMPLATES:
        body = TEMPLATES[context] % call
    else:
        raise AssertionError(context)

    if unres == 'local-def-shadowing-global':
        body = callee_def + body
    elif unres == 'local-lambda-shadowing-global':
        body = 'callee = lambda %s: None\n' % cspec.deflist() + body
    if unres in ('local-def-shadowing-global', 'local-lambda-shadowing-global'):
        callee_def = 'def callee(zz_decoy, /, *, zz_other):\n    return None\n'     # a global of the same name
    odef = ospec.deflist()
    lines = [PRELUDE]
    if unres == 'non-callable':
        lines.append('not_callable = 5\n')
    if route in ('global', 'attribute', 'param-partial', 'wraps', 'declared-function') or unres:
        lines.append(callee_def)
    if route in DECLARED:
        d = p.decl
        dargs = [str(d['k'])] + [repr(nm) for nm in d['names']]
        dargs += ['%s=%r' % (fl, d[fl]) for fl in ('use_varargs', 'use_varkwargs') if not d[fl]]
        dargs += ['%s=%r' % (fl, d[fl]) for fl in ('hide_args', 'hide_kwargs') if d[fl]]
        if p.partial:
            dargs.append('partial=True')
        if p.emulate:
            dargs.append('emulate=True')
        sdef = 'self' + (', ' + odef if odef else '')
        cdef = 'self' + (', ' + cspec.deflist() if cspec.deflist() else '')
        lines.append('from sigtools import specifiers\n')
        if route == 'declared-function':
            lines.append('@specifiers.forwards_to_function(callee, %s)\ndef wrapper(%s):\n' % (', '.join(dargs), odef) +
                         _indent(body) + '\nf = wrapper\n')
        elif route == 'declared-method':
            lines.append('class K(object):\n' + _indent('def callee(%s):\n    return None\n' % cdef) + '\n' +
                         _indent("@specifiers.forwards_to_method('callee', %s)\ndef wrapper(%s):\n" % (', '.join(dargs), sdef) +
                                 _indent(body)) + '\ninst = K()\nwrapper = K.__dict__["wrapper"]\ncallee = inst.callee\nf = inst.wrapper\n')
        elif route == 'declared-method-dotted':
            lines.append('class NS(object):\n    pass\n\ndef _decoy(zz_decoy, /, *, zz_other):\n    return None\n\n' +
                         'class K(object):\n' +
                         _indent('def __init__(self):\n    self.a = NS()\n    self.a.b = NS()\n    self.a.b.callee = self._callee\n'
                                 '    self.b = NS()\n    self.b.callee = _decoy\n    self.callee = _decoy\n') + '\n' +
                         _indent('def _callee(%s):\n    return None\n' % cdef) + '\n' +
                         _indent("@specifiers.forwards_to_method('a.b.callee', %s)\ndef wrapper(%s):\n" % (', '.join(dargs), sdef) +
                                 _indent(body)) + '\ninst = K()\nwrapper = K.__dict__["wrapper"]\ncallee = inst._callee\nf = inst.wrapper\n')
        elif route == 'declared-super':
            lines.append('class Base(object):\n' + _indent('def wrapper(%s):\n    return None\n' % cdef) + '\n' +
                         'class K(Base):\n' +
                         _indent('@specifiers.forwards_to_super(%s)\ndef wrapper(%s):\n' % (', '.join(dargs), sdef) + _indent(body)) +
                         '\ninst = K()\nwrapper = K.__dict__["wrapper"]\ncallee = super(K, inst).wrapper\nf = inst.wrapper\n')
        else:
            aargs = ["'wrapper'", 'num_args=%d' % d['k'], 'named_args=%r' % (tuple(d['names']),)] + dargs[1 + len(d['names']):]
            lines.append('class Base(object):\n' + _indent('def wrapper(%s):\n    return None\n' % cdef) + '\n' +
                         '@specifiers.apply_forwards_to_super(%s)\nclass K(Base):\n' % ', '.join(aargs) +
                         _indent('def wrapper(%s):\n' % sdef + _indent(body)) +
                         '\ninst = K()\nwrapper = K.__dict__["wrapper"]\ncallee = super(K, inst).wrapper\nf = inst.wrapper\n')
        p.text = '\n'.join(lines)
        p.outer = ospec.shape()
        p.callee = cspec.shape()
        site = Site(k, names, use_va=(va_form in ('pristine', 'doubled')), use_vk=(vk_form in ('pristine', 'doubled')))
        p.sites = [(site, p.callee)] * p.n_sites
        return p
    if route == 'attribute' or unres == 'unset-attribute':
        lines.append('class NS(object):\n    pass\nns = NS()\nns.sub = NS()\n')
        if route == 'attribute':
            lines.append('ns.sub.f = callee\n')
    if route == 'closure-shadowing-global':
        lines.append('def callee(zz_decoy, /, *, zz_other):\n    return None\n')
    if route in ('closure', 'closure-shadowing-global'):
        lines.append('def make():\n' + _indent(callee_def) + '\n' +
                     _indent('def wrapper(%s):\n' % odef + _indent(body)) + '\n    return wrapper, callee\n' +
                     ('wrapper, closure_callee = make()\nf = wrapper\n' if route == 'closure-shadowing-global'
                      else 'wrapper, callee = make()\nf = wrapper\n'))
    elif route == 'self':
        sdef = 'self' + (', ' + odef if odef else '')
        cdef = 'self' + (', ' + cspec.deflist() if cspec.deflist() else '')
        lines.append('class K(object):\n' + _indent('def callee(%s):\n    return None\n' % cdef) + '\n' +
                     _indent('def wrapper(%s):\n' % sdef + _indent(body)) + '\n' +
                     'inst = K()\nwrapper = K.__dict__["wrapper"]\ncallee = inst.callee\nf = inst.wrapper\n')
    elif route == 'param-partial':
        pdef = 'fn' + (', ' + odef if odef else '')
        if ospec.kinds and ospec.kinds[0] == 0:
            # fn must stay positional: put it among the positional-only parameters
            pdef = 'fn, ' + odef
        lines.append('def wrapper(%s):\n' % pdef + _indent(body) + '\nf = functools.partial(wrapper, callee)\n')
    elif route == 'wraps':
        lines.append('def plain(%s):\n    return None\n' % odef +
                     '@functools.wraps(plain)\ndef wrapper(%s):\n' % odef + _indent(body) + '\nf = wrapper\n')
    else:
        lines.append('def wrapper(%s):\n' % odef + _indent(body) + '\nf = wrapper\n')
    p.text = '\n'.join(lines)

    # ---- shapes for the execution model
    p.outer = ospec.shape()
    p.callee = cspec.shape()
    site = Site(k, names, use_va=(va_form in ('pristine', 'doubled')), use_vk=(vk_form in ('pristine', 'doubled')))
    p.sites = [(site, p.callee)] * p.n_sites
    return p


_counter = [0]


def build(p):
    """exec the program text (with a linecache entry so that inspect.getsource works)."""
    with sym.notrace():
        _counter[0] += 1
        fname = '<symx-prog-%d>' % _counter[0]
        linecache.cache[fname] = (len(p.text), None, p.text.splitlines(True), fname)
        ns = {'__name__': 'symx_prog_%d' % _counter[0]}
        exec(compile(p.text, fname, 'exec'), ns)
        p.objs = dict(f=ns['f'], wrapper=ns.get('wrapper'), callee=ns.get('closure_callee') or ns.get('callee'), ns=ns)
        p.outer = p.outer.with_real(_both_branches(ns)) if p.context == 'if' else p.outer.with_real(ns['f'])
        p.callee = p.callee.with_real(p.objs['callee'])
        p.sites = [(s, p.callee) for s, _ in p.sites]
    return p


def _both_branches(ns):
    """Real callable that runs f once per branch of the `if` context."""
    f = ns['f']; br = ns['BR']

    def run(*a, **k):
        try:
            br[0] = True
            f(*a, **k)
            br[0] = False
            return f(*a, **k)
        finally:
            br[0] = True
    return run
